#!/venv/bin/python
"""BOUNDED stand-in for C15: geometry and periodic helpers against textbook
definitions in float64.  Bound: seeded random point sets (4..6 points,
200 draws quick / 1000 thorough) in orthorhombic and triclinic boxes, each box
also rotated rigidly (so that it is not lower triangular), rigid motions from
a seeded pool; brute-force minimum image over the 9x9x9 neighbouring cells."""
import itertools
import sys
import numpy as np
sys.path.insert(0, "/verif")
from bounded.common import Run
import biotite.structure as struc

R = Run("C15", "seeded random coordinates/boxes (incl. rigidly rotated boxes) vs float64 textbook formulas and brute-force minimum image")
rng = np.random.default_rng(R.args.seed + 15)
N = 1000 if R.thorough else 200


def rot(rng):
    q = rng.normal(size=4)
    q /= np.linalg.norm(q)
    a, b, c, d = q
    return np.array([[a*a+b*b-c*c-d*d, 2*(b*c-a*d), 2*(b*d+a*c)],
                     [2*(b*c+a*d), a*a-b*b+c*c-d*d, 2*(c*d-a*b)],
                     [2*(b*d-a*c), 2*(c*d+a*b), a*a-b*b-c*c+d*d]])


def boxes(rng):
    o = np.diag(rng.uniform(5, 12, size=3))
    t = struc.vectors_from_unitcell(*rng.uniform(6, 12, size=3), *np.deg2rad(rng.uniform(65, 115, size=3)))
    out = [("orthorhombic", o), ("triclinic", np.asarray(t, dtype=float))]
    Rm = rot(rng)
    out.append(("orthorhombic rotated", o @ Rm.T))
    out.append(("triclinic rotated", np.asarray(t, dtype=float) @ Rm.T))
    return out


def brute_min_image(d, box):
    best = None
    for i, j, k in itertools.product(range(-4, 5), repeat=3):
        v = d + i * box[0] + j * box[1] + k * box[2]
        if best is None or np.linalg.norm(v) < np.linalg.norm(best) - 1e-12:
            best = v
    return best


def heights(box):
    v = abs(np.linalg.det(box))
    return min(v / np.linalg.norm(np.cross(box[(i + 1) % 3], box[(i + 2) % 3])) for i in range(3))


def displacement_contract(kind, box, p, q):
    d = struc.displacement(p.astype(np.float32), q.astype(np.float32), box=box.astype(np.float32)).astype(float)
    plain = q - p
    frac = np.linalg.solve(box.T, d - plain)
    if not np.allclose(frac, np.round(frac), atol=2e-3):
        return f"displacement - plain difference is not a lattice vector (fractions {frac.round(4).tolist()})"
    best = brute_min_image(plain, box)
    if kind.startswith("orthorhombic") or np.linalg.norm(best) < 0.5 * heights(box) - 1e-3:
        if abs(np.linalg.norm(d) - np.linalg.norm(best)) > 2e-3:
            return f"|displacement| = {np.linalg.norm(d):.4f}, shortest image is {np.linalg.norm(best):.4f}"
    dist = float(struc.distance(p.astype(np.float32), q.astype(np.float32), box=box.astype(np.float32)))
    if abs(dist - np.linalg.norm(d)) > 2e-3:
        return "distance(box) != |displacement(box)|"
    return None


for it in range(N):
    for kind, box in boxes(rng):
        p = rng.uniform(-3, 15, size=3)
        q = rng.uniform(-3, 15, size=3)
        R.check("displacement differs from the plain difference by a lattice vector and is the shortest image", f"displacement {kind}",
                {"box": box.round(4).tolist(), "p": p.round(4).tolist(), "q": q.round(4).tolist()},
                lambda kind=kind, box=box, p=p, q=q: displacement_contract(kind, box, p, q))


def broadcast_contract(kind, box):
    """operands of different dimensionality (many points vs one point, stack vs single model):
    the result is the element-wise displacement from the first to the second argument, in every combination"""
    b32 = box.astype(np.float32)
    many = (rng.uniform(0, 1, size=(5, 3)) @ box).astype(np.float32)
    one = (rng.uniform(0, 1, size=3) @ box).astype(np.float32)
    stack = np.stack([many, many + np.float32(0.5)])
    for use_box in (False, True):
        kw = {"box": b32} if use_box else {}
        ref = lambda a, b: struc.displacement(a, b, **kw)
        for name, x, y in (("(n,3) -> (3,)", many, one), ("(3,) -> (n,3)", one, many), ("(m,n,3) -> (n,3)", stack, many),
                           ("(n,3) -> (m,n,3)", many, stack), ("(m,n,3) -> (3,)", stack, one)):
            got = np.asarray(struc.displacement(x, y, **kw), dtype=float)
            xb, yb = np.broadcast_arrays(x, y)
            exp = np.array([ref(a, b) for a, b in zip(xb.reshape(-1, 3), yb.reshape(-1, 3))], dtype=float).reshape(xb.shape)
            if got.shape != exp.shape or not np.allclose(got, exp, atol=2e-3):
                return f"displacement {name} (box={use_box}) differs from the element-wise displacements (e.g. {got.reshape(-1, 3)[0].round(3).tolist()} vs {exp.reshape(-1, 3)[0].round(3).tolist()})"
            d = np.asarray(struc.distance(x, y, **kw), dtype=float)
            if not np.allclose(d, np.linalg.norm(exp, axis=-1), atol=2e-3):
                return f"distance {name} (box={use_box}) differs from the element-wise distances"
        # angle / dihedral with one operand of higher dimensionality
        pts = [many, many + np.float32(1.0), (many[::-1] * np.float32(0.9)).astype(np.float32), one]
        a_ref = np.array([float(struc.angle(stack[m, i], pts[1][i], pts[2][i], **kw)) for m in range(2) for i in range(5)]).reshape(2, 5)
        a_got = np.asarray(struc.angle(stack, pts[1], pts[2], **kw), dtype=float)
        if not np.allclose(a_got, a_ref, atol=3e-3):
            return f"angle(stack, array, array) (box={use_box}) differs from the element-wise angles"
        d_ref = np.array([float(struc.dihedral(stack[m, i], pts[1][i], pts[2][i], pts[3], **kw)) for m in range(2) for i in range(5)]).reshape(2, 5)
        d_got = np.asarray(struc.dihedral(stack, pts[1], pts[2], pts[3], **kw), dtype=float)
        if not np.allclose(np.cos(d_got), np.cos(d_ref), atol=3e-3) or not np.allclose(np.sin(d_got), np.sin(d_ref), atol=3e-3):
            return f"dihedral(stack, array, array, point) (box={use_box}) differs from the element-wise dihedrals"
    return None


for it in range(N // 10):
    for kind, box in boxes(rng):
        R.check("distance/angle/dihedral == textbook, rigid-motion invariant, index variants agree", f"operands of different dimensionality {kind}",
                {"box": box.round(4).tolist()}, lambda kind=kind, box=box: broadcast_contract(kind, box))


def textbook(pts):
    a, b, c, d = pts
    dist = np.linalg.norm(b - a)
    v1, v2 = a - b, c - b
    ang = np.arccos(np.clip(v1 @ v2 / np.linalg.norm(v1) / np.linalg.norm(v2), -1, 1))
    b1, b2, b3 = b - a, c - b, d - c
    n1, n2 = np.cross(b1, b2), np.cross(b2, b3)
    dih = np.arctan2(np.cross(n1, n2) @ (b2 / np.linalg.norm(b2)), n1 @ n2)
    return dist, ang, dih


def geometry_contract(pts, Rm, t):
    f32 = pts.astype(np.float32)
    got = (float(struc.distance(f32[0], f32[1])), float(struc.angle(f32[0], f32[1], f32[2])), float(struc.dihedral(*f32)))
    exp = textbook(pts.astype(np.float32).astype(float))
    for name, g, e in zip(("distance", "angle", "dihedral"), got, exp):
        if abs(g - e) > 2e-3 and abs(abs(g - e) - 2 * np.pi) > 2e-3:
            return f"{name} {g:.5f} != textbook {e:.5f}"
    moved = (pts @ Rm.T + t).astype(np.float32)
    got2 = (float(struc.distance(moved[0], moved[1])), float(struc.angle(moved[0], moved[1], moved[2])), float(struc.dihedral(*moved)))
    for name, g, e in zip(("distance", "angle", "dihedral"), got2, got):
        if abs(g - e) > 5e-3 and abs(abs(g - e) - 2 * np.pi) > 5e-3:
            return f"{name} not invariant under rigid motion: {e:.5f} -> {g:.5f}"
    arr = struc.AtomArray(4)
    arr.coord = f32
    idx = (float(struc.index_distance(arr, np.array([[0, 1]]))[0]), float(struc.index_angle(arr, np.array([[0, 1, 2]]))[0]),
           float(struc.index_dihedral(arr, np.array([[0, 1, 2, 3]]))[0]))
    for name, g, e in zip(("index_distance", "index_angle", "index_dihedral"), idx, got):
        if abs(g - e) > 1e-4:
            return f"{name} {g:.6f} != coordinate variant {e:.6f}"
    # without `periodic` the index variants are the plain ones whatever box is around: a box on the array, or one
    # passed explicitly (smaller than the point spread, so that a minimum image would differ), is not used
    small = np.diag([3.0, 4.0, 5.0]).astype(np.float32)
    arr.box = small
    for label, target, kw in (("array with a box", arr, {}), ("array, box passed", arr, {"box": small}), ("coordinates, box passed", f32, {"box": small}),
                              ("array, periodic=False and box passed", arr, {"periodic": False, "box": small})):
        idx2 = (float(struc.index_distance(target, np.array([[0, 1]]), **kw)[0]), float(struc.index_angle(target, np.array([[0, 1, 2]]), **kw)[0]),
                float(struc.index_dihedral(target, np.array([[0, 1, 2, 3]]), **kw)[0]))
        disp = np.asarray(struc.index_displacement(target, np.array([[0, 1]]), **kw)[0], dtype=float)
        if not np.allclose(disp, (f32[1] - f32[0]).astype(float), atol=1e-4):
            return f"index_displacement({label}) = {disp.round(4).tolist()} without periodic=True, plain difference {(f32[1] - f32[0]).round(4).tolist()}"
        for name, g, e in zip(("index_distance", "index_angle", "index_dihedral"), idx2, got):
            if abs(g - e) > 1e-4:
                return f"{name}({label}) = {g:.6f} without periodic=True, coordinate variant {e:.6f}"
    return None


for it in range(N):
    pts = rng.uniform(-10, 10, size=(4, 3))
    Rm, t = rot(rng), rng.uniform(-20, 20, size=3)
    R.check("distance/angle/dihedral == textbook, rigid-motion invariant, index variants agree", "geometry",
            {"points": pts.round(4).tolist()}, lambda pts=pts, Rm=Rm, t=t: geometry_contract(pts, Rm, t))


def internal(coord):
    """all pair distances and the signed dihedrals of consecutive quadruples (chirality), float64 textbook"""
    c = np.asarray(coord, dtype=float)
    d = np.linalg.norm(c[:, None] - c[None], axis=-1)
    dih = np.array([textbook(c[i:i + 4])[2] for i in range(len(c) - 3)])
    return d, dih


def library_motion_contract(name, coord, move):
    """the rigid motions the library itself offers (transform.py) keep every internal coordinate, handedness included"""
    arr = struc.AtomArray(len(coord))
    arr.coord = coord.astype(np.float32)
    d0, h0 = internal(arr.coord)
    moved = move(arr)
    if not isinstance(moved, struc.AtomArray) or moved.coord.shape != arr.coord.shape:
        return f"{name}: returned {type(moved).__name__}"
    if not np.array_equal(arr.coord, coord.astype(np.float32)):
        return f"{name}: changed the input coordinates"
    d1, h1 = internal(moved.coord)
    if np.abs(d1 - d0).max() > 2e-3:
        return f"{name}: distances change by up to {np.abs(d1 - d0).max():.4f}"
    dd = np.abs(h1 - h0)
    dd = np.minimum(dd, 2 * np.pi - dd)
    if len(dd) and dd.max() > 2e-2:
        return f"{name}: signed dihedral changes {h0[dd.argmax()]:.4f} -> {h1[dd.argmax()]:.4f} (mirror image?)"
    # the variants on plain coordinates agree with the AtomArray variants
    given = arr.coord.copy()
    plain = move(given)
    if not np.array_equal(given, arr.coord):
        return f"{name}: the ndarray variant changed its input"
    if not np.allclose(plain, moved.coord, atol=1e-3):
        return f"{name}: ndarray variant differs from the AtomArray variant"
    return None


for it in range(N // 5):
    n = int(rng.integers(5, 12))
    coord = np.cumsum(rng.normal(size=(n, 3)) * rng.uniform(0.5, 3, size=3), axis=0) + rng.uniform(-20, 20, size=3)
    ang = rng.uniform(-np.pi, np.pi, size=3)
    ax, sup, th = rng.normal(size=3), rng.uniform(-5, 5, size=3), float(rng.uniform(-np.pi, np.pi))
    vec = rng.uniform(-30, 30, size=3)
    order = [None, (0, 1, 2), (2, 1, 0), (1, 2, 0), (0, 2, 1), (1, 0, 2), (2, 0, 1)][it % 7]
    o1, o2, t1, t2 = rng.normal(size=3), rng.normal(size=3), rng.uniform(-5, 5, size=3), rng.uniform(-5, 5, size=3)
    motions = [("translate", lambda a: struc.translate(a, vec)), ("rotate", lambda a: struc.rotate(a, ang)),
               ("rotate_centered", lambda a: struc.rotate_centered(a, ang)),
               ("rotate_about_axis", lambda a: struc.rotate_about_axis(a, ax, th, sup)),
               (f"orient_principal_components(order={order})", lambda a: struc.orient_principal_components(a, order)),
               ("align_vectors", lambda a: struc.align_vectors(a, o1, o2, t1, t2))]
    # vector arguments that are float32 views into the very coordinates being moved (e.g. "rotate about the bond
    # to atom 1"): the motion must still be rigid and must not write into its arguments
    motions += [("rotate_about_axis, axis = a view of the coordinates", lambda a: struc.rotate_about_axis(a, (a.coord if hasattr(a, "coord") else a)[1], th, (a.coord if hasattr(a, "coord") else a)[0])),
                ("translate, vector = a view of the coordinates", lambda a: struc.translate(a, (a.coord if hasattr(a, "coord") else a)[2])),
                ("align_vectors, directions = views of the coordinates",
                 lambda a: struc.align_vectors(a, (a.coord if hasattr(a, "coord") else a)[1], (a.coord if hasattr(a, "coord") else a)[2],
                                               (a.coord if hasattr(a, "coord") else a)[0], (a.coord if hasattr(a, "coord") else a)[3]))]
    for name, move in motions:
        R.check("the library's own rigid motions keep distances and signed dihedrals", f"transform: {name.split('(')[0]}",
                {"n": n, "draw": it, "motion": name}, lambda name=name, coord=coord, move=move: library_motion_contract(name, coord, move))


def special_directions_contract(coord, o, t):
    """align_vectors() for parallel, antiparallel and nearly antiparallel directions: the half turn has no unique
    axis, so the library may refuse exactly opposite directions (ValueError) -- but whatever it returns is a rigid
    motion (no mirror image) that turns the origin direction onto the target direction"""
    o, t = np.array(o, dtype=float), np.array(t, dtype=float)
    try:
        struc.align_vectors(coord.astype(np.float32), o, t)
    except ValueError:
        return None
    err = library_motion_contract(f"align_vectors({o.tolist()} -> {t.tolist()})", coord, lambda a: struc.align_vectors(a, o, t))
    if err:
        return err
    # the direction itself: two points o apart are t-parallel apart afterwards
    pts = np.array([[0.0, 0.0, 0.0], o], dtype=np.float32)
    out = np.asarray(struc.align_vectors(pts, o, t), dtype=float)
    d = out[1] - out[0]
    cosang = float(np.dot(d, t) / (np.linalg.norm(d) * np.linalg.norm(t)))
    if cosang < 1 - 1e-4:
        return f"align_vectors({o.tolist()} -> {t.tolist()}) turns the origin direction to {d.round(4).tolist()} (cos of the angle to the target {cosang:.5f})"
    return None


_sd_coord = np.cumsum(rng.normal(size=(7, 3)) * 1.5, axis=0) + 3.0
for o, t in (([0, 0, 1], [0, 0, -1]), ([2, 0, 0], [-0.5, 0, 0]), ([1, 1, 0], [-1, -1, 0]), ([1, 2, 3], [-1, -2, -3]), ([0, 1, 0], [0, -3, 0]),
             ([0, 0, 1], [0, 0, 1]), ([1, 2, 3], [2, 4, 6]), ([0, 0, 1], [0, 1e-4, -1]), ([1, 0, 0], [-1, 1e-3, 0]), ([0, 0, 1], [1, 0, 0])):
    R.check("the library's own rigid motions keep distances and signed dihedrals", "transform: align_vectors, special directions",
            {"origin": o, "target": t}, lambda o=o, t=t: special_directions_contract(_sd_coord, o, t))


# ---------------------------------------------------------------- backbone dihedrals, centroid
def backbone_contract(n_res, stack, missing):
    """dihedral_backbone: phi / psi / omega of every residue equal the textbook dihedral of the four backbone atoms
    (C(i-1) N CA C / N CA C N(i+1) / CA C N(i+1) CA(i+1)), NaN at the chain ends and where an atom is missing;
    they do not change under a rigid motion; centroid == mean of the coordinates"""
    import os
    import tempfile
    import shutil
    import atexit
    import biotite.structure.info as info
    from fixtures.make_ccd import main as make_ccd
    if not getattr(backbone_contract, "ccd", None):
        d = tempfile.mkdtemp(prefix="verif-ccd-")
        atexit.register(shutil.rmtree, d, True)
        backbone_contract.ccd = os.path.join(d, "components.bcif")
        make_ccd(backbone_contract.ccd)
        info.set_ccd_path(backbone_contract.ccd)
    names = ["N", "CA", "C", "O"]
    rows = [(r + 1, nm) for r in range(n_res) for nm in names if not (r == missing[0] and nm == missing[1])]
    n = len(rows)
    a = struc.AtomArrayStack(2, n) if stack else struc.AtomArray(n)
    a.chain_id[:] = "A"
    a.res_id[:] = [r for r, _ in rows]
    a.res_name[:] = [("GLY", "ALA", "SER")[(r - 1) % 3] for r, _ in rows]
    a.atom_name[:] = [nm for _, nm in rows]
    a.element[:] = [nm[0] for _, nm in rows]
    coord = np.cumsum(rng.normal(size=(2 if stack else 1, n, 3)) * 1.5, axis=1).astype(np.float32)
    a.coord = coord if stack else coord[0]
    phi, psi, omg = struc.dihedral_backbone(a)
    got = np.stack([np.asarray(phi, dtype=float), np.asarray(psi, dtype=float), np.asarray(omg, dtype=float)])
    if not stack:
        got = got[:, None]
    if got.shape != (3, coord.shape[0], n_res):
        return f"angle arrays of shape {got.shape[1:]}, expected {(coord.shape[0], n_res)}"
    pos = {(r, nm): k for k, (r, nm) in enumerate(rows)}
    for m in range(coord.shape[0]):
        for r in range(1, n_res + 1):
            quads = {0: [(r - 1, "C"), (r, "N"), (r, "CA"), (r, "C")], 1: [(r, "N"), (r, "CA"), (r, "C"), (r + 1, "N")],
                     2: [(r, "CA"), (r, "C"), (r + 1, "N"), (r + 1, "CA")]}
            for which, quad in quads.items():
                g = got[which, m, r - 1]
                if any(q not in pos for q in quad):
                    if not np.isnan(g):
                        return f"{('phi', 'psi', 'omega')[which]} of residue {r} = {g:.4f} although one of its atoms does not exist (NaN expected)"
                    continue
                e = textbook(coord[m][[pos[q] for q in quad]].astype(float))[2]
                if np.isnan(g) or min(abs(g - e), 2 * np.pi - abs(g - e)) > 2e-3:
                    return f"{('phi', 'psi', 'omega')[which]} of residue {r} (model {m}) = {g:.4f}, textbook dihedral of {quad} = {e:.4f}"
    Rm, t = rot(rng), rng.uniform(-20, 20, size=3)
    b = a.copy()
    b.coord = (a.coord.astype(float) @ Rm.T + t).astype(np.float32)
    for x, y in zip(struc.dihedral_backbone(b), (phi, psi, omg)):
        dx = np.abs(np.asarray(x, dtype=float) - np.asarray(y, dtype=float))
        dx = np.minimum(dx, 2 * np.pi - dx)
        if not np.array_equal(np.isnan(x), np.isnan(y)) or np.nanmax(dx, initial=0) > 5e-3:
            return "backbone dihedrals change under a rigid motion"
    cen = np.asarray(struc.centroid(a), dtype=float)
    if not np.allclose(cen, coord.mean(axis=1) if stack else coord[0].mean(axis=0), atol=1e-3):
        return "centroid != mean of the coordinates"
    return None


for it in range(max(4, N // 25)):
    for n_res in (1, 2, 4):
        for stack in (False, True):
            for missing in ((-1, ""), (1, "CA"), (0, "C"), (n_res - 1, "N")):
                if missing[0] >= n_res:
                    continue
                R.check("distance/angle/dihedral == textbook, rigid-motion invariant, index variants agree", "backbone dihedrals / centroid",
                        {"residues": n_res, "stack": stack, "missing atom": list(missing), "draw": it},
                        lambda n_res=n_res, stack=stack, missing=missing: backbone_contract(n_res, stack, missing))


def periodic_geometry_contract(kind, box):
    """a 4-atom chain is translated and wrapped into the box: the periodic distance / angle / dihedral
    (and their index variants) must equal the textbook values of the unwrapped chain"""
    start = rng.uniform(0.2, 0.8, size=3) @ box
    step = rng.normal(size=(3, 3))
    step = step / np.linalg.norm(step, axis=1)[:, None] * 1.3
    chain = np.vstack([start, start + np.cumsum(step, axis=0)])
    exp = textbook(chain.astype(np.float32).astype(float))
    b32 = box.astype(np.float32)
    for trial in range(4):
        shift = rng.uniform(-1.5, 1.5, size=3) @ box
        w = struc.move_inside_box((chain + shift).astype(np.float32), b32)
        got = (float(struc.distance(w[0], w[1], box=b32)), float(struc.angle(w[0], w[1], w[2], box=b32)),
               float(struc.dihedral(w[0], w[1], w[2], w[3], box=b32)))
        for name, g, e in zip(("distance", "angle", "dihedral"), got, exp):
            if abs(g - e) > 3e-3 and abs(abs(g - e) - 2 * np.pi) > 3e-3:
                return f"periodic {name} of the wrapped chain = {g:.4f}, unwrapped chain has {e:.4f}"
        arr = struc.AtomArray(4)
        arr.coord = w
        arr.box = b32
        idx = (float(struc.index_distance(arr, np.array([[0, 1]]), periodic=True)[0]),
               float(struc.index_angle(arr, np.array([[0, 1, 2]]), periodic=True)[0]),
               float(struc.index_dihedral(arr, np.array([[0, 1, 2, 3]]), periodic=True)[0]))
        for name, g, e in zip(("index_distance", "index_angle", "index_dihedral"), idx, exp):
            if abs(g - e) > 3e-3 and abs(abs(g - e) - 2 * np.pi) > 3e-3:
                return f"{name}(periodic=True) of the wrapped chain = {g:.4f}, unwrapped chain has {e:.4f}"
        # the box may also be given explicitly: for bare coordinates, for an array without a box and
        # for an array whose own box differs (the given box is the one that counts)
        other = (np.eye(3) * 97.0).astype(np.float32)
        nobox = struc.AtomArray(4)
        nobox.coord = w
        otherbox = struc.AtomArray(4)
        otherbox.coord = w
        otherbox.box = other
        for label, target in (("coordinates", w), ("array without box", nobox), ("array with another box", otherbox)):
            idx = (float(struc.index_distance(target, np.array([[0, 1]]), periodic=True, box=b32)[0]),
                   float(struc.index_angle(target, np.array([[0, 1, 2]]), periodic=True, box=b32)[0]),
                   float(struc.index_dihedral(target, np.array([[0, 1, 2, 3]]), periodic=True, box=b32)[0]))
            disp = struc.index_displacement(target, np.array([[0, 1]]), periodic=True, box=b32)[0]
            if abs(float(np.linalg.norm(disp)) - exp[0]) > 3e-3:
                return f"index_displacement({label}, box=...) has length {float(np.linalg.norm(disp)):.4f}, unwrapped chain has {exp[0]:.4f}"
            for name, g, e in zip(("index_distance", "index_angle", "index_dihedral"), idx, exp):
                if abs(g - e) > 3e-3 and abs(abs(g - e) - 2 * np.pi) > 3e-3:
                    return f"{name}({label}, periodic=True, box=...) = {g:.4f}, unwrapped chain has {e:.4f}"
    return None


for it in range(N // 2):
    for kind, box in boxes(rng):
        R.check("periodic distance/angle/dihedral are invariant under translation + wrapping", f"periodic geometry {kind}",
                {"box": box.round(4).tolist()}, lambda kind=kind, box=box: periodic_geometry_contract(kind, box))


def box_contract(kind, box, pts):
    f32, b32 = pts.astype(np.float32), box.astype(np.float32)
    fr = struc.coord_to_fraction(f32, b32)
    back = struc.fraction_to_coord(fr, b32)
    if not np.allclose(back, f32, atol=2e-3):
        return "fraction_to_coord(coord_to_fraction(x)) != x"
    inside = struc.move_inside_box(f32, b32)
    fin = struc.coord_to_fraction(inside, b32)
    if (fin < -1e-4).any() or (fin >= 1 + 1e-4).any():
        return f"move_inside_box leaves fractions {fin.round(4).tolist()}"
    shift = np.linalg.solve(box.T, (inside.astype(float) - pts).T).T
    if not np.allclose(shift, np.round(shift), atol=2e-3):
        return "move_inside_box shifted by a non-lattice vector"
    if kind in ("orthorhombic", "triclinic"):
        cell = struc.unitcell_from_vectors(b32)
        again = struc.vectors_from_unitcell(*cell)
        if not np.allclose(again, b32, atol=2e-3):
            return "vectors_from_unitcell(unitcell_from_vectors(box)) != box"
    if kind in ("orthorhombic", "triclinic") and struc.is_orthogonal(b32) != (kind == "orthorhombic"):
        return f"is_orthogonal({kind}) = {struc.is_orthogonal(b32)}"
    # periodic copies: repeat_box_coord / repeat_box give, after the original, one copy per neighbouring cell,
    # each shifted by the lattice vector i*a + j*b + k*c of a different (i, j, k) in {-1, 0, 1}^3 minus (0, 0, 0)
    rep, idx = struc.repeat_box_coord(f32, b32, amount=1)
    n = len(f32)
    if rep.shape != (27 * n, 3) or not np.array_equal(rep[:n], f32) or idx.tolist() != list(range(n)) * 27:
        return f"repeat_box_coord: shape {rep.shape}, original first: {np.array_equal(rep[:n], f32)}"
    seen = set()
    for c in range(1, 27):
        sh = np.linalg.solve(box.T, (rep[c * n:(c + 1) * n].astype(float) - f32.astype(float)).T).T
        cell = np.round(sh[0])
        if not np.allclose(sh, cell, atol=3e-3) or np.abs(cell).max() > 1 or not cell.any():
            return f"repeat_box_coord: copy {c} is shifted by {sh[0].round(3).tolist()} box vectors"
        seen.add(tuple(int(x) for x in cell))
    if len(seen) != 26:
        return f"repeat_box_coord: {len(seen)} distinct neighbouring cells instead of 26"
    arr = struc.AtomArray(n)
    arr.coord = f32
    arr.box = b32
    rarr, ridx = struc.repeat_box(arr, amount=1)
    if not np.allclose(rarr.coord, rep, atol=1e-4) or ridx.tolist() != idx.tolist() or not np.allclose(rarr.box, b32):
        return "repeat_box(atoms) differs from repeat_box_coord(coord)"
    # a stack: every model is repeated with its own box, as if it were alone
    st = struc.AtomArrayStack(3, n)
    st.coord = np.stack([f32, f32 + 1.5, f32[::-1] * 0.5])
    st.box = np.stack([b32, b32 * 1.25, b32 * 0.75])
    rst, sidx = struc.repeat_box(st, amount=1)
    if rst.coord.shape != (3, 27 * n, 3) or sidx.tolist() != idx.tolist():
        return f"repeat_box(stack): coordinates of shape {rst.coord.shape}"
    for mdl in range(3):
        alone, _ = struc.repeat_box(st[mdl], amount=1)
        if not np.allclose(rst.coord[mdl], alone.coord, atol=1e-3) or not np.allclose(rst.box[mdl], alone.box):
            return f"repeat_box(stack): model {mdl} differs from repeating that model alone"
    return None


def inplace_box_contract(kind, box, pts):
    """the box helpers are functions of the box *values*: after the caller changes a box array in place (a rescaled
    cell, a buffer refilled for the next trajectory frame) every helper answers as for a fresh array of those values"""
    f32 = pts.astype(np.float32)
    b = box.astype(np.float32).copy()

    def answers(bx):
        arr = struc.AtomArray(len(f32))
        arr.coord = f32
        arr.box = bx
        return [np.asarray(struc.coord_to_fraction(f32, bx), dtype=float), np.asarray(struc.move_inside_box(f32, bx), dtype=float),
                np.asarray(struc.distance(f32[0], f32[1], box=bx), dtype=float), np.asarray(struc.displacement(f32[0], f32[2], box=bx), dtype=float),
                np.asarray(struc.index_distance(f32, np.array([[0, 3]]), periodic=True, box=bx), dtype=float),
                np.asarray(struc.remove_pbc_from_coord(f32, bx), dtype=float)]
    answers(b)                                   # some use of the box ...
    for step, change in (("rescaled in place", lambda x: x.__imul__(1.7)), ("one vector lengthened in place", lambda x: x.__setitem__((0, slice(None)), x[0] * 1.5)),
                         ("refilled in place", lambda x: x.__setitem__(slice(None), box.astype(np.float32) * 0.8))):
        change(b)                                # ... then the same array gets other values
        same_object = answers(b)
        fresh = answers(b.copy())
        for name, x, y in zip(("coord_to_fraction", "move_inside_box", "distance", "displacement", "index_distance", "remove_pbc_from_coord"), same_object, fresh):
            if x.shape != y.shape or not np.allclose(x, y, atol=1e-3, equal_nan=True):
                return f"box {step}: {name} with the same array object gives {np.round(x, 3).tolist()}, with a fresh array of the same values {np.round(y, 3).tolist()}"
    return None


for it in range(max(3, N // 10)):
    for kind, box in boxes(rng):
        pts = rng.uniform(-25, 25, size=(5, 3))
        R.check("box helpers act by lattice vectors and are mutually inverse", f"box changed in place {kind}", {"box": box.round(4).tolist(), "draw": it},
                lambda kind=kind, box=box, pts=pts: inplace_box_contract(kind, box, pts))


def unitcell_contract(lengths, angles_deg):
    """cell -> box vectors -> cell is the identity (documented inverse pair), the vectors have the documented
    orientation (a along x, b in the xy plane) and enclose the requested angles (float64 recomputation)"""
    ang = np.deg2rad(np.array(angles_deg, dtype=float))
    v = np.asarray(struc.vectors_from_unitcell(*lengths, *ang))
    if v.shape != (3, 3) or v[0, 1] != 0 or v[0, 2] != 0 or v[1, 2] != 0:
        return f"vectors_from_unitcell: not the documented lower-triangular form: {v.tolist()}"
    v64 = v.astype(float)
    ln = np.linalg.norm(v64, axis=1)
    if not np.allclose(ln, lengths, rtol=1e-5):
        return f"box vector lengths {ln.tolist()} for the cell lengths {list(lengths)}"

    def enclosed(x, y):
        return np.rad2deg(np.arccos(np.dot(x, y) / (np.linalg.norm(x) * np.linalg.norm(y))))
    got = [enclosed(v64[1], v64[2]), enclosed(v64[0], v64[2]), enclosed(v64[0], v64[1])]
    if np.abs(np.array(got) - angles_deg).max() > 2e-3:
        return f"box vectors enclose the angles {np.round(got, 4).tolist()} instead of {list(angles_deg)}"
    back = struc.unitcell_from_vectors(v)
    if not np.allclose(back[:3], lengths, rtol=1e-5) or np.abs(np.rad2deg(np.array(back[3:], dtype=float)) - angles_deg).max() > 2e-3:
        return (f"unitcell_from_vectors(vectors_from_unitcell(cell)) = {[round(float(x), 4) for x in back[:3]]} "
                f"{np.round(np.rad2deg(np.array(back[3:], dtype=float)), 4).tolist()} != cell")
    return None


CELL_LENGTHS = ((10.0, 10.0, 10.0), (10.0, 10.0, 200.0), (5.0, 300.0, 40.0), (1000.0, 3.0, 3.0))
for lengths in CELL_LENGTHS:
    for dev in itertools.product((0.0, 0.01, -0.05, 0.1, -0.5, 7.0), repeat=3):
        angles = [90.0 + d for d in dev]
        R.check("box helpers act by lattice vectors and are mutually inverse", "unit cell -> vectors -> unit cell",
                {"lengths": list(lengths), "angles_deg": angles}, lambda lengths=lengths, angles=angles: unitcell_contract(lengths, angles))
for it in range(N // 2):
    lengths = tuple(float(x) for x in np.exp(rng.uniform(np.log(3), np.log(400), size=3)).round(3))
    angles = [float(x) for x in (90 + rng.choice([-1, 1], size=3) * np.exp(rng.uniform(np.log(0.005), np.log(25), size=3))).round(4)]
    R.check("box helpers act by lattice vectors and are mutually inverse", "unit cell -> vectors -> unit cell",
            {"lengths": list(lengths), "angles_deg": angles}, lambda lengths=lengths, angles=angles: unitcell_contract(lengths, angles))


for it in range(N // 2):
    for kind, box in boxes(rng):
        pts = rng.uniform(-25, 25, size=(5, 3))
        R.check("box helpers act by lattice vectors and are mutually inverse", f"box helpers {kind}",
                {"box": box.round(4).tolist()}, lambda kind=kind, box=box, pts=pts: box_contract(kind, box, pts))


def pbc_contract(kind, box, variant="inside"):
    # a 4-atom chain molecule wrapped into the box: after remove_pbc bonded atoms are within minimum-image distance
    start = rng.uniform(0, 1, size=3) @ box
    step = rng.normal(size=(3, 3))
    step = step / np.linalg.norm(step, axis=1)[:, None] * 1.4
    pts = np.vstack([start, start + np.cumsum(step, axis=0)])
    arr = struc.AtomArray(4)
    arr.coord = struc.move_inside_box(pts.astype(np.float32), box.astype(np.float32))
    if variant == "molecule in a neighbouring image":
        # atoms are wrapped individually, then the whole system sits outside the box (e.g. after a translation)
        arr.coord = (arr.coord.astype(float) + np.array([1, -1, 2]) @ box).astype(np.float32)
    elif variant == "first atom outside":
        arr.coord[0] = (arr.coord[0].astype(float) + np.array([-1, 0, 1]) @ box).astype(np.float32)
    arr.box = box.astype(np.float32)
    arr.bonds = struc.BondList(4, np.array([(0, 1, 1), (1, 2, 1), (2, 3, 1)]))
    out = struc.remove_pbc(arr)
    direct = struc.remove_pbc_from_coord(arr.coord, arr.box)
    for i in range(3):
        dl = np.linalg.norm(direct[i + 1].astype(float) - direct[i].astype(float))
        if abs(dl - 1.4) > 8e-3:
            return f"remove_pbc_from_coord ({variant}): neighbours {i}-{i+1} are {dl:.4f} apart (1.4 before wrapping)"
    for i in range(3):
        dlen = np.linalg.norm(out.coord[i + 1].astype(float) - out.coord[i].astype(float))
        if abs(dlen - 1.4) > 5e-3:
            return f"bond {i}-{i+1} has length {dlen:.4f} after remove_pbc (1.4 before wrapping)"
    shift = np.linalg.solve(box.T, (out.coord.astype(float) - arr.coord.astype(float)).T).T
    if not np.allclose(shift, np.round(shift), atol=3e-3):
        return "remove_pbc moved atoms by a non-lattice vector"
    return None


for it in range(N // 4):
    for kind, box in boxes(rng):
        for variant in ("inside", "molecule in a neighbouring image", "first atom outside"):
            R.check("remove_pbc keeps bonded atoms at minimum-image distance and shifts by lattice vectors", f"remove_pbc {kind} ({variant})",
                    {"box": box.round(4).tolist(), "variant": variant}, lambda kind=kind, box=box, variant=variant: pbc_contract(kind, box, variant))
R.finish()
