"""reference scoring / brute-force optimum for pairwise alignments (shared by the C08 and C09 stand-ins)"""
import numpy as np
import biotite.sequence as seq
import biotite.sequence.align as align

ALPH = seq.NucleotideSequence.alphabet_unamb


def matrix(match, mismatch):
    m = np.full((4, 4), mismatch, dtype=np.int32)
    np.fill_diagonal(m, match)
    return align.SubstitutionMatrix(ALPH, ALPH, m)


def asymmetric():
    """bisulfite-like scoring: the pair (first C, second T) scores like a match, (first T, second C) does not"""
    m = np.full((4, 4), -2, dtype=np.int32)
    np.fill_diagonal(m, 2)
    m[1, 3] = 2          # C (sequence 1) over T (sequence 2)
    m[0, 2] = 1          # A over G: half a match, G over A: mismatch
    return align.SubstitutionMatrix(ALPH, ALPH, m)


MATRICES = {"+1/-1": matrix(1, -1), "+2/-3": matrix(2, -3), "+1/0": matrix(1, 0), "asymmetric": asymmetric()}


def all_traces(n1, n2, i0=0, j0=0):
    out = []

    def rec(i, j, cur):
        if i == n1 and j == n2:
            out.append(list(cur))
            return
        if i < n1 and j < n2:
            rec(i + 1, j + 1, cur + [(i0 + i, j0 + j)])
        if i < n1:
            rec(i + 1, j, cur + [(i0 + i, -1)])
        if j < n2:
            rec(i, j + 1, cur + [(-1, j0 + j)])
    rec(0, 0, [])
    return out


def score_of(trace, c1, c2, sm, gap, terminal, n1, n2):
    go, ge = (gap, gap) if not isinstance(gap, tuple) else gap
    total = 0
    for a, b in trace:
        if a != -1 and b != -1:
            total += sm[c1[a], c2[b]]
    for row in (0, 1):
        col = [t[row] for t in trace]
        # terminal gaps of this row (free when terminal penalty is off)
        first = next((k for k, x in enumerate(col) if x != -1), None)
        last = max((k for k, x in enumerate(col) if x != -1), default=None)
        in_gap = False
        for k, x in enumerate(col):
            if x == -1:
                free = (not terminal) and (first is None or k < first or k > last)
                if not free:
                    total += ge if in_gap else go
                in_gap = True
            else:
                in_gap = False
    return total


def abutting(trace):
    for (a1, b1), (a2, b2) in zip(trace, trace[1:]):
        if (a1 == -1 and b2 == -1) or (b1 == -1 and a2 == -1):
            return True
    return False


def brute(c1, c2, sm, gap, terminal, local, allow_abutting=False):
    n1, n2 = len(c1), len(c2)
    affine = isinstance(gap, tuple) and not allow_abutting
    best = None
    if not local:
        for tr in all_traces(n1, n2):
            if affine and abutting(tr):
                continue
            s = score_of(tr, c1, c2, sm, gap, terminal, n1, n2)
            best = s if best is None or s > best else best
        return best
    best = 0
    for i0 in range(n1):
        for i1 in range(i0 + 1, n1 + 1):
            for j0 in range(n2):
                for j1 in range(j0 + 1, n2 + 1):
                    for tr in all_traces(i1 - i0, j1 - j0, i0, j0):
                        if tr[0][0] == -1 or tr[0][1] == -1 or tr[-1][0] == -1 or tr[-1][1] == -1:
                            continue
                        if affine and abutting(tr):
                            continue
                        s = score_of(tr, c1, c2, sm, gap, True, n1, n2)
                        best = max(best, s)
    return best


