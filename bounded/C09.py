#!/venv/bin/python
"""BOUNDED stand-in for C09: align_banded, align_local_gapped, align_local_ungapped on
the real compiled code against align_optimal / a brute-force optimum.
Bound: sequence pairs of length 1..4 over {A,C,G} (sampled in the quick tier),
3 matrices, linear and affine penalties, all bands with diagonals in
[-len1-1, len2+1] (both orders), all seeds, thresholds {0,1,3,100}, all directions."""
import itertools
import sys
import numpy as np
sys.path.insert(0, "/verif")
from bounded.common import Run
from bounded.alignref import ALPH, MATRICES, all_traces, score_of, abutting, brute
import biotite.sequence as seq
import biotite.sequence.align as align

R = Run("C09", "sequence pairs of length 1..4 over {A,C,G} x 3 matrices x linear/affine penalties x all bands (both orders, partly outside) x "
               "all seeds x thresholds {0,1,3,100} x directions: heuristics vs align_optimal / brute force")


def trace_of(ali):
    return [tuple(int(x) for x in t) for t in ali.trace]


def valid_trace(tr, n1, n2):
    for row, n in ((0, n1), (1, n2)):
        idx = [t[row] for t in tr if t[row] != -1]
        if idx and (idx[0] < 0 or idx[-1] >= n or idx != list(range(idx[0], idx[-1] + 1))):
            return f"invalid trace {tr}"
    if any(t == (-1, -1) for t in tr):
        return "all-gap column"
    return None


def complete(tr, n1, n2):
    """semi-global result completed by the unaligned sequence ends (free end gaps)"""
    i = [t[0] for t in tr if t[0] != -1]
    j = [t[1] for t in tr if t[1] != -1]
    i0, i1 = (i[0], i[-1]) if i else (n1, n1 - 1)
    j0, j1 = (j[0], j[-1]) if j else (n2, n2 - 1)
    if (i0 > 0 and j0 > 0) or (i1 < n1 - 1 and j1 < n2 - 1):
        return None
    head = [(k, -1) for k in range(i0)] + [(-1, k) for k in range(j0)]
    tail = [(k, -1) for k in range(i1 + 1, n1)] + [(-1, k) for k in range(j1 + 1, n2)]
    return head + tr + tail


_upper = {}


def upper_bound(a, b, mname, gap, local):
    """maximum over ALL alignments (abutting gaps allowed also for affine penalties): the weakest
    reading of 'true optimum of the unrestricted problem', so exceeding it is a violation under any reading"""
    k = (a, b, mname, gap, local)
    if k not in _upper:
        s1, s2 = seq.NucleotideSequence(a), seq.NucleotideSequence(b)
        _upper[k] = brute(s1.code, s2.code, MATRICES[mname].score_matrix(), gap, False, local, allow_abutting=True)
    return _upper[k]


_opt = {}


def optimal(a, b, mname, gap, local, n):
    k = (a, b, mname, gap, local, n)
    if k not in _opt:
        s1, s2 = seq.NucleotideSequence(a), seq.NucleotideSequence(b)
        _opt[k] = align.align_optimal(s1, s2, MATRICES[mname], gap_penalty=gap, terminal_penalty=False, local=local, max_number=n)
    return _opt[k]


def banded(a, b, mname, gap, band, local):
    s1, s2 = seq.NucleotideSequence(a), seq.NucleotideSequence(b)
    m = MATRICES[mname]
    sm = m.score_matrix()
    lo, hi = min(band), max(band)
    cells = [(i, j) for i in range(len(a)) for j in range(len(b)) if lo <= j - i <= hi]
    try:
        alis = align.align_banded(s1, s2, m, band, gap_penalty=gap, local=local, max_number=50)
    except ValueError as e:
        if not cells:
            return None            # band entirely outside the table: refusing is fine
        return f"refused although {len(cells)} cells lie in the band: {e}"
    if not alis or len(alis) > 50:
        return f"{len(alis)} alignments returned"
    opt = optimal(a, b, mname, gap, local, 100)
    upper = upper_bound(a, b, mname, gap, local)
    for ali in alis:
        tr = trace_of(ali)
        v = valid_trace(tr, len(a), len(b))
        if v:
            return v
        for i, j in tr:
            if i != -1 and j != -1 and not (lo <= j - i <= hi):
                return f"paired positions ({i},{j}) outside the band {band}"
        if tr:
            full = tr if local else complete(tr, len(a), len(b))
            if full is None:
                return f"semi-global alignment leaves ends of both sequences unaligned on one side: {tr}"
            rec = score_of(full, s1.code, s2.code, sm, gap, local, len(a), len(b))
            if rec != ali.score:
                # classify: is the reported score that of the same path with the first column read as the gap
                # step that follows the free end gap (known finding C09-banded-leading-gap-as-pair)?
                i0, j0 = tr[0]
                alts = []
                if not local and j0 == 0:
                    # path entered from the (omitted) left column: s1[..i0] is free head, s2[0] faces a gap
                    alts.append([(k, -1) for k in range(i0 + 1)] + [(-1, 0)] + tr[1:])
                if not local and i0 == 0:
                    # path entered from the first row: s2[..j0] is free head, s1[0] faces a gap
                    alts.append([(-1, k) for k in range(j0 + 1)] + [(0, -1)] + tr[1:])
                for alt in alts:
                    i1 = max(t[0] for t in alt)
                    j1 = max(t[1] for t in alt)
                    c = alt + [(k, -1) for k in range(i1 + 1, len(a))] + [(-1, k) for k in range(j1 + 1, len(b))]
                    if score_of(c, s1.code, s2.code, sm, gap, False, len(a), len(b)) == ali.score:
                        return "banded leading gap reported as pair", f"recomputed score {rec} != reported {ali.score} for {tr}: the reported score belongs to {c}"
                return f"recomputed score {rec} != reported {ali.score} for {tr}"
        if ali.score > upper:
            return f"score {ali.score} above the maximum over all alignments {upper}"
    other = align.align_banded(s1, s2, m, (band[1], band[0]), gap_penalty=gap, local=local, max_number=50)
    if other[0].score != alis[0].score:
        return "band order changes the score"
    covers = lo <= -(len(a) - 1) and hi >= len(b) - 1
    pairs = any(any(i != -1 and j != -1 for i, j in trace_of(o)) for o in opt)
    if covers and pairs and alis[0].score < opt[0].score:
        return f"band covers the table but score {alis[0].score} below the optimum {opt[0].score} of align_optimal"
    return None


def gapped(a, b, mname, gap, seed, threshold, direction):
    s1, s2 = seq.NucleotideSequence(a), seq.NucleotideSequence(b)
    m = MATRICES[mname]
    sm = m.score_matrix()
    alis = align.align_local_gapped(s1, s2, m, seed, threshold, gap_penalty=gap, max_number=20, direction=direction)
    sc = align.align_local_gapped(s1, s2, m, seed, threshold, gap_penalty=gap, max_number=20, direction=direction, score_only=True)
    if not alis or len(alis) > 20:
        return f"{len(alis)} alignments returned"
    if sc != alis[0].score:
        return f"score_only gives {sc}, full call {alis[0].score}"
    opt = optimal(a, b, mname, gap, True, 200)
    upper = upper_bound(a, b, mname, gap, True)
    for ali in alis:
        tr = trace_of(ali)
        v = valid_trace(tr, len(a), len(b))
        if v:
            return v
        if tuple(seed) not in tr:
            return f"seed {seed} not in the alignment {tr}"
        if ali.score != alis[0].score:
            return "alignments with different scores"
        for i, j in tr:
            if direction == "upstream" and (i > seed[0] or j > seed[1]):
                return f"extends downstream of the seed: {tr}"
            if direction == "downstream" and ((i != -1 and i < seed[0]) or (j != -1 and j < seed[1])):
                return f"extends upstream of the seed: {tr}"
        rec = score_of(tr, s1.code, s2.code, sm, gap, True, len(a), len(b))
        if rec != ali.score:
            return f"recomputed score {rec} != reported {ali.score} for {tr}"
        if ali.score > upper:
            return f"score {ali.score} above the maximum over all local alignments {upper}"
    if threshold >= 100 and direction == "both" and len(opt) < 200 and any(tuple(seed) in trace_of(o) for o in opt):
        if alis[0].score < opt[0].score:
            return f"threshold cannot bind and an optimal alignment contains the seed, but score {alis[0].score} below the optimum {opt[0].score}"
    return None


def ungapped(a, b, mname, seed, threshold, direction):
    s1, s2 = seq.NucleotideSequence(a), seq.NucleotideSequence(b)
    m = MATRICES[mname]
    sm = m.score_matrix()
    ali = align.align_local_ungapped(s1, s2, m, seed, threshold, direction=direction)
    sc = align.align_local_ungapped(s1, s2, m, seed, threshold, direction=direction, score_only=True)
    if sc != ali.score:
        return f"score_only gives {sc}, full call {ali.score}"
    tr = trace_of(ali)
    if tuple(seed) not in tr:
        return f"seed {seed} not in the alignment {tr}"
    if any(i == -1 or j == -1 or j - i != seed[1] - seed[0] for i, j in tr):
        return f"gap or diagonal change in an ungapped alignment: {tr}"
    v = valid_trace(tr, len(a), len(b))
    if v:
        return v
    if direction == "upstream" and tr[-1] != tuple(seed):
        return f"extends downstream of the seed: {tr}"
    if direction == "downstream" and tr[0] != tuple(seed):
        return f"extends upstream of the seed: {tr}"
    rec = sum(int(sm[s1.code[i], s2.code[j]]) for i, j in tr)
    if rec != ali.score:
        return f"recomputed score {rec} != reported {ali.score}"
    # best ungapped segment through the seed in the allowed directions
    best = None
    i0, j0 = seed
    ups = range(0, min(i0, j0) + 1) if direction != "downstream" else [0]
    downs = range(0, min(len(a) - 1 - i0, len(b) - 1 - j0) + 1) if direction != "upstream" else [0]
    for u in ups:
        for d in downs:
            s = sum(int(sm[s1.code[i0 + k], s2.code[j0 + k]]) for k in range(-u, d + 1))
            best = s if best is None or s > best else best
    if ali.score > best:
        return f"score {ali.score} above the best segment through the seed {best}"
    if threshold >= 100 and ali.score != best:
        return f"threshold cannot bind but score {ali.score} != best segment through the seed {best}"
    return None


words = ["".join(w) for n in (1, 2, 3, 4) for w in itertools.product("ACG", repeat=n)]
pairs = list(itertools.product(words, repeat=2))
R.rng.shuffle(pairs)
pairs = pairs[: (1200 if R.thorough else 160)] + [("ACGA", "ACGA"), ("A", "CCCA"), ("AACC", "CCAA"), ("ACAG", "AG"), ("CCT", "TTC"), ("TCT", "CT"), ("CT", "TCAT"), ("GATC", "ACT")]
for a, b in pairs:
    for mname in MATRICES if R.thorough else ("+1/-1", "+2/-3", "asymmetric"):
        for gap in (-1, -3, (-3, -1)) if R.thorough else (-1, (-3, -1)):
            bands = [(lo, hi) for lo in range(-len(a) - 1, len(b) + 2) for hi in range(lo, len(b) + 2)]
            if not R.thorough:
                bands = R.rng.sample(bands, min(4, len(bands)))
            for band in bands:
                for local in (False, True):
                    R.check("align_banded: valid, honestly scored, inside the band, never above optimal, optimal when the band covers the table",
                            f"banded {'local' if local else 'semi-global'}",
                            {"seq1": a, "seq2": b, "matrix": mname, "gap": gap, "band": band, "local": local},
                            lambda a=a, b=b, mname=mname, gap=gap, band=band, local=local: banded(a, b, mname, gap, band, local))
            seeds = [(i, j) for i in range(len(a)) for j in range(len(b))]
            if not R.thorough:
                seeds = R.rng.sample(seeds, min(2, len(seeds)))
            for seed in seeds:
                for threshold in (0, 1, 3, 100):
                    for direction in ("both", "upstream", "downstream"):
                        R.check("align_local_gapped: valid, contains the seed, honest score, direction, score_only, never above optimal",
                                f"gapped {direction}",
                                {"seq1": a, "seq2": b, "matrix": mname, "gap": gap, "seed": seed, "threshold": threshold, "direction": direction},
                                lambda a=a, b=b, mname=mname, gap=gap, seed=seed, threshold=threshold, direction=direction:
                                gapped(a, b, mname, gap, seed, threshold, direction))
                        if gap == -1:
                            R.check("align_local_ungapped: valid, contains the seed, honest score, direction, score_only, best segment",
                                    f"ungapped {direction}",
                                    {"seq1": a, "seq2": b, "matrix": mname, "seed": seed, "threshold": threshold, "direction": direction},
                                    lambda a=a, b=b, mname=mname, seed=seed, threshold=threshold, direction=direction:
                                    ungapped(a, b, mname, seed, threshold, direction))
R.finish()
