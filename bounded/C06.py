#!/venv/bin/python
"""BOUNDED stand-in for C06: string tables through the real CIF text layer.
Bound: single-row categories with 1..2 columns and looped categories of
2 rows x 1..2 columns, every cell from a pool of special-character strings
(spaces, tabs, quotes, leading _ # ; $ [ ], reserved words, empty, line
breaks, '.' and '?'), every column position; plus the mapping protocol of the
containers against a dict model."""
import itertools
import sys
import numpy as np
sys.path.insert(0, "/verif")
from bounded.common import Run
import biotite.structure.io.pdbx as pdbx

class Run6(Run):
    def check(self, contract, key, inp, fn, nontrivial=True):
        if ML_KEY in key:
            key = ML_KEY
        return super().check(contract, key, inp, fn, nontrivial)


R = Run6("C06", "all looped (2 rows) and single-row categories with 1..2 columns over a pool of special strings through "
                "CIFFile.serialize()/deserialize(); container mapping protocol vs dict")

POOL = ["abc", "a b", "a\tb", "it's", 'say "hi"', "a dog's \"life\"", "_under", "#hash", ";semi", "$dollar", "[br]",
        "data_x", "loop_", "save_", "global_", "stop_", "", "a\nb", "a\n b", "line1\n\nline3", ".", "?", "'", '"', "x'", "a 'b", "a' b", 'a" b',
        "tab\t'q", "5", "-1.5", "a;b", "a#b", " lead", "trail "]
if not R.thorough:
    POOL = POOL[:28]


def table_roundtrip(columns, looped):
    """columns: list of lists of str (equal length)"""
    names = [f"c{i}" for i in range(len(columns))]
    cat = pdbx.CIFCategory({n: np.array(col, dtype=object).astype(str) if False else pdbx.CIFColumn(pdbx.CIFData(np.array(col, dtype="U")))
                            for n, col in zip(names, columns)})
    block = pdbx.CIFBlock()
    block["tab"] = cat
    f = pdbx.CIFFile()
    f["blk"] = block
    text = f.serialize()
    g = pdbx.CIFFile.deserialize(text)
    back = g["blk"]["tab"]
    if list(back.keys()) != names:
        return f"columns {list(back.keys())} != {names}"
    for n, col in zip(names, columns):
        c = back[n]
        got = c.data.array.tolist() if c.data is not None else None
        if got != list(col):
            return f"column {n}: read {got!r}, wrote {list(col)!r}; text: {text!r}"
        exp_mask = [1 if v == "." else 2 if v == "?" else 0 for v in col]
        got_mask = c.mask.array.tolist() if c.mask is not None else [0] * len(col)
        if got_mask != exp_mask:
            return f"column {n}: mask {got_mask} != {exp_mask}"
    return None


ML_KEY = "multi-line value whose inner lines start with blanks or are empty"


def kind(v):
    """failure class of a value (for the known-findings key)"""
    if "\n" in v:
        if any(l != l.strip() or l == "" for l in v.split("\n")):
            return ML_KEY
        return "multiline"
    for p in ("data_", "loop_", "save_", "global_", "stop_"):
        if v.startswith(p):
            return "reserved-word"
    if v and v[0] in "#;$[]_":
        return "leading-" + v[0]
    if "'" in v and '"' in v:
        return "both-quotes"
    if "'" in v:
        return "apostrophe" + ("+space" if (" " in v or "\t" in v) else "")
    if '"' in v:
        return "dquote" + ("+space" if (" " in v or "\t" in v) else "")
    if v == "":
        return "empty"
    if " " in v or "\t" in v:
        return "whitespace"
    return "plain"


# looped, 2 rows, one column
for a, b in itertools.product(POOL, repeat=2):
    R.check("looped table round trip", f"looped 1 column: {kind(a)} / {kind(b)}", {"rows": [[a], [b]]},
            lambda a=a, b=b: table_roundtrip([[a, b]], True))
# looped, 2 rows x 2 columns: special value in each position, neighbour plain or special
for v in POOL:
    for w in ("abc", "a b", "it's", "."):
        R.check("looped table round trip", f"looped first column: {kind(v)}", {"rows": [[v, w], [w, v]]},
                lambda v=v, w=w: table_roundtrip([[v, w], [w, v]], True))
        R.check("looped table round trip", f"looped last column: {kind(v)}", {"rows": [[w, v], [v, w]]},
                lambda v=v, w=w: table_roundtrip([[w, v], [v, w]], True))
# single row
for v in POOL:
    R.check("single-row category round trip", f"single row: {kind(v)}", {"row": [v]},
            lambda v=v: table_roundtrip([[v]], False))
    for w in ("abc", "a b"):
        R.check("single-row category round trip", f"single row 2 columns: {kind(v)}", {"row": [v, w]},
                lambda v=v, w=w: table_roundtrip([[v], [w]], False))
        R.check("single-row category round trip", f"single row 2 columns: {kind(v)}", {"row": [w, v]},
                lambda v=v, w=w: table_roundtrip([[w], [v]], False))


# mapping protocol of the containers (text and binary flavour) vs a dict model
def serialize_is_pure(rows, shared, mask):
    """writing does not change what is written: columns with an explicit mask (over string, integer or float data,
    the data array possibly shared with another column) hold the same data afterwards, serialise to the same text
    again, and the other column reads back unchanged"""
    base = np.array(["GLY", "ALA", "SER", "TRP"][:rows], dtype="U")
    data = pdbx.CIFData(base)
    m = np.array(mask[:rows], dtype=np.uint8)
    masked = pdbx.CIFColumn(data, pdbx.CIFData(m))
    other = pdbx.CIFColumn(data if shared == "CIFData" else pdbx.CIFData(base if shared == "ndarray" else base.copy()))
    cat = pdbx.CIFCategory({"masked": masked, "plain": other})
    f = pdbx.CIFFile()
    f["blk"] = pdbx.CIFBlock({"tab": cat})
    before = (masked.data.array.tolist(), other.data.array.tolist(), masked.mask.array.tolist())
    text1 = f.serialize()
    after = (masked.data.array.tolist(), other.data.array.tolist(), masked.mask.array.tolist())
    if after != before:
        return f"serialize() changed the stored columns: {before} -> {after}"
    text2 = f.serialize()
    if text2 != text1:
        return "serialising twice gives different text"
    g = pdbx.CIFFile.deserialize(text1)["blk"]["tab"]
    if g["plain"].as_array(str).tolist() != base.tolist() or g["plain"].mask is not None:
        return f"unmasked column reads back as {g['plain'].as_array(str).tolist()} with mask {None if g['plain'].mask is None else g['plain'].mask.array.tolist()}, wrote {base.tolist()}"
    gm = g["masked"]
    exp_mask = m.tolist()
    got_mask = gm.mask.array.tolist() if gm.mask is not None else [0] * rows
    if got_mask != exp_mask:
        return f"mask reads back as {got_mask}, wrote {exp_mask}"
    for i in range(rows):
        if exp_mask[i] == 0 and gm.data.array[i] != base[i]:
            return f"present value {base[i]!r} of the masked column reads back as {gm.data.array[i]!r}"
    if base.tolist() != ["GLY", "ALA", "SER", "TRP"][:rows]:
        return f"the caller's array was changed to {base.tolist()}"
    return None


for rows in (1, 2, 4):
    for shared in ("CIFData", "ndarray", "no"):
        for mask in ([0, 0, 0, 0], [0, 1, 0, 2], [2, 0, 1, 0], [1, 2, 1, 2]):
            R.check("writing leaves the written containers unchanged", f"serialize with masks, data shared: {shared}",
                    {"rows": rows, "shared": shared, "mask": mask[:rows]}, lambda rows=rows, shared=shared, mask=mask: serialize_is_pure(rows, shared, mask))


def names_contract(block_names, cat_names, col_names, looped):
    """all block / category / column names the grammar admits (mixed case, digits, dots, dashes, brackets as in
    U[1][1]) come back as keys, in order, with their tables"""
    f = pdbx.CIFFile()
    exp = {}
    for b in block_names:
        blk = pdbx.CIFBlock()
        exp[b] = {}
        for c in cat_names:
            cols = {col: ([f"{b}|{c}|{col}|{r}" for r in range(2)] if looped else [f"{b}|{c}|{col}"]) for col in col_names}
            blk[c] = pdbx.CIFCategory({k: np.array(v) for k, v in cols.items()})
            exp[b][c] = cols
        f[b] = blk
    text = f.serialize()
    g = pdbx.CIFFile.deserialize(text)
    if list(g.keys()) != list(exp):
        return f"block names {list(g.keys())} != {list(exp)}"
    for b in exp:
        if list(g[b].keys()) != list(exp[b]):
            return f"category names of block {b!r}: {list(g[b].keys())} != {list(exp[b])}"
        for c in exp[b]:
            cat = g[b][c]
            if list(cat.keys()) != list(exp[b][c]):
                return f"column names of {b!r}.{c!r}: {list(cat.keys())} != {list(exp[b][c])}"
            for col, vals in exp[b][c].items():
                if cat[col].as_array(str).tolist() != vals:
                    return f"{b!r}.{c!r}.{col!r} = {cat[col].as_array(str).tolist()}, wrote {vals}"
    return None


BLOCKS = [["1ABC"], ["blk", "BLK2"], ["a-b.c", "x_y", "7"], ["data", "loop"]]
CATS = [["atom_site"], ["c", "C2", "pdbx_struct_oper_list"], ["atom_site_anisotrop", "a.b"[:1] + "1"]]
COLS = [["id"], ["Cartn_x", "U[1][1]", "pdbx_PDB_ins_code"], ["a", "A1", "b-c", "label_comp_id"]]
for bn in BLOCKS:
    for cn in CATS:
        for col in COLS:
            for looped in (False, True):
                R.check("all block / category / column names survive", "names", {"blocks": bn, "categories": cn, "columns": col, "looped": looped},
                        lambda bn=bn, cn=cn, col=col, looped=looped: names_contract(bn, cn, col, looped))


def fresh_instances(flavour):
    """two containers created without arguments share nothing: filling one leaves the other (and any created later) empty"""
    if flavour == "cif":
        F, B, C, mk = pdbx.CIFFile, pdbx.CIFBlock, pdbx.CIFCategory, lambda v: np.array(v)
    else:
        F, B, C, mk = pdbx.BinaryCIFFile, pdbx.BinaryCIFBlock, pdbx.BinaryCIFCategory, lambda v: np.array(v)
    for cls, fill in ((F, lambda x: x.__setitem__("b", B())), (B, lambda x: x.__setitem__("c", C({"x": mk(["1"])}))), (C, lambda x: x.__setitem__("x", mk(["1", "2"])))):
        one, two = cls(), cls()
        fill(one)
        if len(two) != 0 or list(two.keys()) != []:
            return f"{cls.__name__}(): filling one instance shows up in another: keys {list(two.keys())}"
        three = cls()
        if len(three) != 0:
            return f"{cls.__name__}(): an instance created later starts with keys {list(three.keys())}"
        if len(one) != 1:
            return f"{cls.__name__}(): the filled instance has {len(one)} entries"
    return None


for flavour in ("cif", "bcif"):
    R.check("containers behave as mutable mappings", f"{flavour} fresh containers are independent", {"flavour": flavour}, lambda flavour=flavour: fresh_instances(flavour))


def built_from_the_same_dict(flavour, level):
    """building a container from a dictionary leaves that dictionary as the caller made it (same keys, the very same
    value objects), however many containers are built from it; a category built from it is a mapping of its own.
    (Blocks and files *keep* the dictionary they are given - later edits of such a container show in it; that is how
    the pinned tree is written and is not claimed either way.)"""
    if flavour == "cif":
        F, B, C = pdbx.CIFFile, pdbx.CIFBlock, pdbx.CIFCategory
    else:
        F, B, C = pdbx.BinaryCIFFile, pdbx.BinaryCIFBlock, pdbx.BinaryCIFCategory
    if level == "category":
        d = {"x": np.array(["1", "2"]), "y": ["u", "v"]}
        make, new_value = C, np.array(["p", "q"])
    elif level == "block":
        d = {"cat_a": C({"x": np.array(["1", "2"])}), "cat_b": C({"y": np.array(["u", "v"])})}
        make, new_value = B, C({"z": np.array(["7"])})
    else:
        d = {"b1": B({"cat_a": C({"x": np.array(["1", "2"])})}), "b2": B()}
        make, new_value = F, B()
    keys0, vals0 = list(d.keys()), list(d.values())
    one, two = make(d), make(d)
    if list(d.keys()) != keys0 or any(a is not b for a, b in zip(d.values(), vals0)):
        return (f"{make.__name__}(d) changed the dictionary handed in: keys {list(d.keys())}, value types "
                f"{[type(v).__name__ for v in d.values()]} (were {[type(v).__name__ for v in vals0]})")
    if list(one.keys()) != keys0 or list(two.keys()) != keys0:
        return f"{make.__name__}(d) has the keys {list(one.keys())}, the dictionary {keys0}"
    if level == "category":
        two["added"] = new_value
        del two[keys0[0]]
        if list(one.keys()) != keys0 or "added" in one or "added" in d or list(d.keys()) != keys0:
            return f"editing one category built from a dictionary changed the other / the dictionary: keys {list(one.keys())}, {list(d.keys())} instead of {keys0}"
    return None


for flavour in ("cif", "bcif"):
    for level in ("category", "block", "file"):
        R.check("containers behave as mutable mappings", f"{flavour} containers built from the same dictionary", {"flavour": flavour, "level": level},
                lambda flavour=flavour, level=level: built_from_the_same_dict(flavour, level))


def mapping_protocol(make_file, make_block, make_cat, lazy):
    f = make_file()
    model = {}
    for name in ("b1", "b2"):
        blk = make_block()
        for cname in ("cat_a", "cat_b"):
            blk[cname] = make_cat({"x": np.array(["1", "2"]), "y": np.array(["u", "v"])})
        f[name] = blk
        model[name] = {"cat_a", "cat_b"}
    if lazy:
        f = type(f).deserialize(f.serialize())
    if list(f.keys()) != list(model.keys()) or len(f) != 2 or "b1" not in f or "zz" in f:
        return "file keys / len / contains differ from the dict model"
    blk = f["b1"]
    if set(blk.keys()) != model["b1"] or len(blk) != 2:
        return f"block keys {list(blk.keys())}"
    del blk["cat_a"]
    if "cat_a" in blk or len(blk) != 1 or list(blk.keys()) != ["cat_b"]:
        return f"after del: {list(blk.keys())}"
    cat = blk["cat_b"]
    if list(cat.keys()) != ["x", "y"] or cat["x"].as_array().tolist() != ["1", "2"]:
        return "category content differs"
    cat["z"] = np.array(["p", "q"])
    if list(cat.keys()) != ["x", "y", "z"] or len(cat) != 3:
        return "set on category"
    del cat["x"]
    if list(cat.keys()) != ["y", "z"]:
        return "del on category"
    f2 = type(f).deserialize(f.serialize())
    if list(f2["b1"].keys()) != ["cat_b"] or list(f2["b1"]["cat_b"].keys()) != ["y", "z"]:
        return f"edits lost after serialisation: {list(f2['b1'].keys())}"
    if not (f2 == f):
        return "file != its own serialise/deserialise image"
    try:
        f["missing"]
        return "missing key did not raise KeyError"
    except KeyError:
        pass
    return None


def equality_contract(make_file, make_block, make_cat, lazy):
    """== on columns, categories, blocks and files is equality of the string tables (row counts included)"""
    tables = {"one row": {"x": ["a"], "y": ["1"]}, "two equal rows": {"x": ["a", "a"], "y": ["1", "1"]},
              "three equal rows": {"x": ["a", "a", "a"], "y": ["1", "1", "1"]}, "two rows": {"x": ["a", "b"], "y": ["1", "1"]},
              "other column": {"x": ["a"], "z": ["1"]}, "other order": {"y": ["1"], "x": ["a"]}}
    objs = {}
    for name, t in tables.items():
        cat = make_cat({k: np.array(v) for k, v in t.items()})
        blk = make_block()
        blk["c"] = cat
        f = make_file()
        f["b"] = blk
        if lazy:
            f = type(f).deserialize(f.serialize())
        objs[name] = f
    for n1, f1 in objs.items():
        for n2, f2 in objs.items():
            same_table = {k: list(v) for k, v in tables[n1].items()} == {k: list(v) for k, v in tables[n2].items()}
            levels = {"file": (f1, f2), "block": (f1["b"], f2["b"]), "category": (f1["b"]["c"], f2["b"]["c"])}
            if set(tables[n1]) == set(tables[n2]):
                k0 = sorted(tables[n1])[0]
                levels["column"] = (f1["b"]["c"][k0], f2["b"]["c"][k0])
                same_col = tables[n1][k0] == tables[n2][k0]
            for level, (a, b) in levels.items():
                exp = same_table if level != "column" else same_col
                if bool(a == b) != exp:
                    return f"{level} of '{n1}' == {level} of '{n2}' gives {a == b}, the tables are {'equal' if exp else 'different'}"
    return None


def masked_equality(flavour):
    """== is symmetric and tells columns apart that differ only in their mask (same stored data, other '.'/'?' states),
    at every container level; equal masks compare equal"""
    if flavour == "cif":
        Col, Data, Cat, Blk, Fil = pdbx.CIFColumn, pdbx.CIFData, pdbx.CIFCategory, pdbx.CIFBlock, pdbx.CIFFile
    else:
        Col, Data, Cat, Blk, Fil = pdbx.BinaryCIFColumn, pdbx.BinaryCIFData, pdbx.BinaryCIFCategory, pdbx.BinaryCIFBlock, pdbx.BinaryCIFFile
    base = np.array(["a", "b", "c"])
    masks = {"none": None, "all present": [0, 0, 0], "one missing": [0, 2, 0], "one inapplicable": [0, 1, 0], "other row missing": [0, 0, 2]}

    def wrap(mask):
        col = Col(Data(base.copy()), None if mask is None else Data(np.array(mask, dtype=np.uint8)))
        cat = Cat({"x": col})
        blk = Blk({"c": cat})
        return {"column": col, "category": cat, "block": blk, "file": Fil({"b": blk})}
    objs = {k: wrap(m) for k, m in masks.items()}
    for n1, o1 in objs.items():
        for n2, o2 in objs.items():
            m1, m2 = masks[n1], masks[n2]
            # (a mask of only PRESENT states describes the same table as no mask: either answer is accepted there)
            trivial = lambda m: m is None or not any(m)
            if trivial(m1) and trivial(m2) and n1 != n2:
                continue
            exp = (m1 == m2)
            for level in ("column", "category", "block", "file"):
                got, rev = bool(o1[level] == o2[level]), bool(o2[level] == o1[level])
                if got != rev:
                    return f"{flavour} {level}: ('{n1}' == '{n2}') is {got} but ('{n2}' == '{n1}') is {rev}"
                if got != exp:
                    return f"{flavour} {level} with mask '{n1}' == {level} with mask '{n2}' gives {got}"
    return None


for flavour in ("cif", "bcif"):
    R.check("containers behave as mutable mappings", f"{flavour} equality of masked columns", {"flavour": flavour, "what": "== with masks"},
            lambda flavour=flavour: masked_equality(flavour))


for lazy in (False, True):
    R.check("containers behave as mutable mappings", f"CIF equality lazy={lazy}", {"flavour": "cif", "lazy": lazy, "what": "=="},
            lambda lazy=lazy: equality_contract(pdbx.CIFFile, pdbx.CIFBlock, pdbx.CIFCategory, lazy))
    R.check("containers behave as mutable mappings", f"BinaryCIF equality lazy={lazy}", {"flavour": "bcif", "lazy": lazy, "what": "=="},
            lambda lazy=lazy: equality_contract(pdbx.BinaryCIFFile, pdbx.BinaryCIFBlock, pdbx.BinaryCIFCategory, lazy))
    R.check("containers behave as mutable mappings", f"CIF mapping lazy={lazy}", {"flavour": "cif", "lazy": lazy},
            lambda lazy=lazy: mapping_protocol(pdbx.CIFFile, pdbx.CIFBlock, pdbx.CIFCategory, lazy))
    R.check("containers behave as mutable mappings", f"BinaryCIF mapping lazy={lazy}", {"flavour": "bcif", "lazy": lazy},
            lambda lazy=lazy: mapping_protocol(pdbx.BinaryCIFFile, pdbx.BinaryCIFBlock, pdbx.BinaryCIFCategory, lazy))
R.finish()
