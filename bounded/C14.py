#!/venv/bin/python
"""BOUNDED stand-in for C14: cell-list neighbour search against brute-force
float64 distances.  Bound: seeded random coordinate sets of 1..30 atoms
(150 draws quick / 600 thorough), cell sizes 0.5..6, query points inside and
outside the bounding box, scalar and per-query radii, masks / padded index
arrays, selections, periodic boxes; points whose distance is within 1e-4 of
the radius are excluded from the comparison (float32 vs float64)."""
import sys
import numpy as np
sys.path.insert(0, "/verif")
from bounded.common import Run
import biotite.structure as struc

R = Run("C14", "seeded random atom sets / cell sizes / query points / radii: CellList results vs brute-force distances "
                "(border band 1e-4 excluded), cell queries are supersets, adjacency matrix symmetric")
rng = np.random.default_rng(R.args.seed + 14)
N = 600 if R.thorough else 150
EPS = 1e-4


def contract(periodic):
    n = int(rng.integers(1, 31))
    coord = rng.uniform(0, 12, size=(n, 3)).astype(np.float32)
    cell = float(rng.uniform(0.5, 6))
    box = None
    if periodic:
        box = np.diag(rng.uniform(12.5, 16, size=3)).astype(np.float32)
    sel = None
    if rng.random() < 0.3:
        sel = rng.random(n) < 0.7
        sel[int(rng.integers(0, n))] = True
    cl = struc.CellList(coord, cell, periodic=periodic, box=box, selection=sel)
    q = rng.uniform(-4, 16, size=(int(rng.integers(1, 6)), 3)).astype(np.float32)
    per_query = rng.random() < 0.5
    rmax = 6.0 if periodic else 7.0        # periodic: below half the smallest box length (unique minimum image)
    radius = rng.uniform(0.3, rmax, size=len(q)) if per_query else float(rng.uniform(0.3, rmax))
    if periodic:
        q = struc.move_inside_box(q, box) if False else q
    idx = cl.get_atoms(q, radius)
    mask = cl.get_atoms(q, radius, as_mask=True)
    c64, q64 = coord.astype(float), q.astype(float)
    for k in range(len(q)):
        r = radius[k] if per_query else radius
        diff = c64 - q64[k]
        if periodic:
            b = np.diag(box).astype(float)
            diff = diff - np.round(diff / b) * b
        dist = np.linalg.norm(diff, axis=1)
        allowed = np.ones(n, bool) if sel is None else sel
        must = set(np.where((dist <= r - EPS) & allowed)[0].tolist())
        may = set(np.where((dist <= r + EPS) & allowed)[0].tolist())
        got = set(int(i) for i in idx[k] if i != -1)
        gotm = set(np.where(mask[k])[0].tolist())
        if not (must <= got <= may):
            return f"query {q64[k].round(3).tolist()} radius {r:.4f}: indices {sorted(got)}, brute force {sorted(must)}..{sorted(may)}"
        if gotm != got:
            return f"mask result {sorted(gotm)} != index result {sorted(got)}"
        if len(set(i for i in idx[k] if i != -1)) != sum(1 for i in idx[k] if i != -1):
            return "duplicate indices in the padded result"
    # cell-based query is a superset of the atoms within the cell radius * cell size
    cidx = cl.get_atoms_in_cells(q, cell_radius=1)
    for k in range(len(q)):
        diff = c64 - q64[k]
        if periodic:
            b = np.diag(box).astype(float)
            diff = diff - np.round(diff / b) * b
        dist = np.linalg.norm(diff, axis=1)
        allowed = np.ones(n, bool) if sel is None else sel
        need = set(np.where((dist <= cell - EPS) & allowed)[0].tolist())
        got = set(int(i) for i in cidx[k] if i != -1)
        if not need <= got:
            return f"get_atoms_in_cells misses atoms {sorted(need - got)} within one cell size"
    if sel is None and not periodic:
        thr = float(rng.uniform(0.5, 5))
        adj = cl.create_adjacency_matrix(thr)
        full = np.linalg.norm(c64[:, None] - c64[None], axis=-1)
        if not np.array_equal(adj, adj.T):
            return "adjacency matrix is not symmetric"
        bad = (adj != (full <= thr)) & (np.abs(full - thr) > EPS)
        if bad.any():
            i, j = np.argwhere(bad)[0]
            return f"adjacency[{i},{j}] = {adj[i, j]} but distance {full[i, j]:.4f} vs threshold {thr:.4f}"
    return None


for it in range(N):
    for periodic in (False, True):
        R.check("cell-list query == brute-force distance test", f"celllist periodic={periodic}", {"draw": it, "periodic": periodic},
                lambda periodic=periodic: contract(periodic))
R.finish()
