#!/venv/bin/python
"""BOUNDED stand-in for C11: alignments through every conversion against
column-by-column recomputation.  Bound: all gapped alignments of two sequences
of length <= 3 over {A, C} (every valid trace without all-gap columns), plus
three-row alignments from a fixed pool of staggered traces; gap penalties
linear / affine, terminal penalty on/off; CIGAR options; progressive MSA on
all 3-subsets of a pool of short sequences."""
import io
import itertools
import sys
import numpy as np
sys.path.insert(0, "/verif")
from bounded.common import Run
import biotite.sequence as seq
import biotite.sequence.align as align
import biotite.sequence.io.fasta as fasta

R = Run("C11", "all pairwise traces of sequences of length <= 3 over {A,C} and a pool of 3-row staggered traces: conversions, "
                "helpers and score() vs column-wise recomputation; align_multiple on 3-subsets of 6 short sequences")
MATRIX = align.SubstitutionMatrix.std_nucleotide_matrix()
SM = MATRIX.score_matrix()
# a matrix that is not symmetric: score(x over y) != score(y over x); rows belong to the earlier sequence of a pair
_U = seq.NucleotideSequence.alphabet_unamb
ASYM_TABLE = np.array([[5, -4, 1, -3], [-1, 6, -2, 4], [-3, 0, 7, -5], [2, -6, 3, 8]], dtype=np.int32)
ASYM = align.SubstitutionMatrix(_U, _U, ASYM_TABLE)


def valid_trace(tr, lens):
    tr = np.asarray(tr)
    if tr.ndim != 2 or tr.shape[1] != len(lens):
        return f"trace shape {tr.shape}"
    for s in range(tr.shape[1]):
        col = tr[:, s]
        idx = col[col != -1]
        if len(idx) and (np.any(np.diff(idx) <= 0) or idx.min() < 0 or idx.max() >= lens[s]):
            return f"row {s} indices {idx.tolist()} not strictly increasing within [0,{lens[s]})"
    if len(tr) and np.any(np.all(tr == -1, axis=1)):
        return "an alignment column consists of gaps only"
    return None


def ref_score(codes, gap, terminal, SM=SM):
    n, L = codes.shape
    total = 0
    for p in range(L):
        for i in range(n):
            for j in range(i + 1, n):
                if codes[i, p] != -1 and codes[j, p] != -1:
                    total += SM[codes[i, p], codes[j, p]]
    go, ge = (gap, gap) if not isinstance(gap, tuple) else gap
    nong = [np.where(np.all(codes != -1, axis=0) | True)[0]]
    # terminal gaps: columns before the first / after the last column in which every row has a symbol started
    start, stop = 0, L
    if not terminal:
        firsts = [np.where(codes[i] != -1)[0] for i in range(n)]
        start = max(f[0] for f in firsts if len(f)) if all(len(f) for f in firsts) else 0
        stop = min(f[-1] for f in firsts if len(f)) + 1 if all(len(f) for f in firsts) else L
    for i in range(n):
        in_gap = False
        for p in range(start, stop):
            if codes[i, p] == -1:
                total += ge if in_gap else go
                in_gap = True
            else:
                in_gap = False
    return total


def all_traces(n1, n2):
    """all alignments (as traces) of sequences of length n1, n2 using every symbol (global) without all-gap columns"""
    out = []

    def rec(i, j, cur):
        if i == n1 and j == n2:
            out.append(list(cur))
            return
        if i < n1 and j < n2:
            rec(i + 1, j + 1, cur + [(i, j)])
        if i < n1:
            rec(i + 1, j, cur + [(i, -1)])
        if j < n2:
            rec(i, j + 1, cur + [(-1, j)])
    rec(0, 0, [])
    return out


def conversions(seqs, trace):
    ali = align.Alignment(seqs, np.array(trace, dtype=np.int64), None)
    lens = [len(s) for s in seqs]
    v = valid_trace(ali.trace, lens)
    if v:
        return "input trace invalid: " + v
    gapped = ali.get_gapped_sequences()
    tr2 = align.Alignment.trace_from_strings(gapped)
    if tr2.tolist() != np.array(trace).tolist():
        return f"trace_from_strings(get_gapped_sequences) = {tr2.tolist()} != {trace}"
    codes = align.get_codes(ali)
    for r, s in enumerate(seqs):
        exp = [(-1 if t[r] == -1 else int(s.code[t[r]])) for t in trace]
        if codes[r].tolist() != exp:
            return f"get_codes row {r}: {codes[r].tolist()} != {exp}"
    syms = align.get_symbols(ali)
    for r, s in enumerate(seqs):
        if [x for x in syms[r]] != [(None if t[r] == -1 else str(s)[t[r]]) for t in trace]:
            return f"get_symbols row {r}"
    # FASTA round trip
    f = fasta.FastaFile()
    fasta.set_alignment(f, ali, [f"s{i}" for i in range(len(seqs))])
    s_io = io.StringIO()
    f.write(s_io)
    back = fasta.get_alignment(fasta.FastaFile.read(io.StringIO(s_io.getvalue())))
    if back.trace.tolist() != np.array(trace).tolist() or [str(x) for x in back.sequences] != [str(x) for x in seqs]:
        return f"FASTA alignment round trip: trace {back.trace.tolist()}"
    # parsing with additional gap characters: every listed character is a gap, in every row
    gapped = ali.get_gapped_sequences()
    for chars in (("_",), (".",), ("_", "."), (".", "_", "~")):
        for variant in range(len(chars) + 1):
            f2 = fasta.FastaFile()
            for r, g in enumerate(gapped):
                ch = chars[(variant + r) % len(chars)] if variant < len(chars) else None
                f2[f"s{r}"] = g.replace("-", ch) if ch else "".join(chars[(r + q) % len(chars)] if c == "-" else c for q, c in enumerate(g))
            try:
                back = fasta.get_alignment(f2, additional_gap_chars=chars)
            except Exception as e:
                return f"FASTA alignment with gap characters {chars} (variant {variant}) not parsed: {type(e).__name__}: {e}"
            if back.trace.tolist() != np.array(trace).tolist() or [str(x) for x in back.sequences] != [str(x) for x in seqs]:
                return f"FASTA alignment with gap characters {chars}: trace {back.trace.tolist()}"
    # identity
    cols = [t for t in trace]
    if len(seqs) == 2 and len(cols):
        ident = sum(1 for t in cols if t[0] != -1 and t[1] != -1 and seqs[0].code[t[0]] == seqs[1].code[t[1]])
        for mode, denom in (("all", len(cols)), ("shortest", min(lens))):
            try:
                got = align.get_sequence_identity(ali, mode)
            except ValueError:
                continue
            if denom and abs(got - ident / denom) > 1e-9:
                return f"get_sequence_identity({mode}) = {got}, column count gives {ident}/{denom}"
    # gap removal
    ng = align.remove_gaps(ali)
    exp_ng = [list(t) for t in trace if -1 not in t]
    if ng.trace.tolist() != exp_ng:
        return f"remove_gaps {ng.trace.tolist()} != {exp_ng}"
    return None


def mixed_alphabet_contract(trace):
    """rows over different alphabets: every row is decoded with the alphabet of its own sequence"""
    s1 = seq.NucleotideSequence("ACGT")                       # unambiguous alphabet
    s2 = seq.NucleotideSequence("ANRT")                       # ambiguous alphabet
    s3 = seq.GeneralSequence(seq.LetterAlphabet("WXYZ"), "WXYZ")
    # alphabets that are not letter alphabets but whose symbols print as one character (digits; a mix of one-letter
    # strings and numbers): the gapped strings and str() are documented for them as well
    s4 = seq.GeneralSequence(seq.Alphabet(list(range(10))), [3, 1, 4, 1])
    s5 = seq.GeneralSequence(seq.Alphabet(["a", 7, "Z", "-"[:0] or "q"]), ["Z", 7, "a", "q"])
    for seqs in ((s1, s2), (s2, s1), (s1, s3), (s3, s2), (s4, s4), (s1, s4), (s5, s4), (s4, s5)):
        tr = [t for t in trace if all(x < 4 for x in t)]
        if not tr:
            return None
        ali = align.Alignment(list(seqs), np.array(tr, dtype=np.int64), None)
        try:
            syms = align.get_symbols(ali)
            gapped = ali.get_gapped_sequences()
        except Exception as e:
            return f"alignment of {[str(x) for x in seqs]}: {type(e).__name__}: {e}"
        for r, sq in enumerate(seqs):
            exp = [None if t[r] == -1 else sq.symbols[t[r]] for t in tr]
            if list(syms[r]) != exp:
                return f"get_symbols row {r} of {[str(x) for x in seqs]} = {list(syms[r])}, expected {exp}"
            if gapped[r] != "".join("-" if x is None else str(x) for x in [None if t[r] == -1 else sq.symbols[t[r]] for t in tr]):
                return f"gapped row {r} of {[list(x.symbols) for x in seqs]} is {gapped[r]!r}: it does not spell the aligned symbols"
            if str(ali).split("\n")[r] != gapped[r]:
                return f"str(alignment) row {r} is {str(ali).splitlines()[r]!r}, the gapped sequence is {gapped[r]!r}"
        codes = align.get_codes(ali)
        for r, sq in enumerate(seqs):
            if codes[r].tolist() != [(-1 if t[r] == -1 else int(sq.code[t[r]])) for t in tr]:
                return f"get_codes row {r}"
    return None


for trace in all_traces(3, 3)[::2]:
    R.check("conversions recover trace and sequences; helpers == column-wise recomputation", "rows over different alphabets", {"trace": trace},
            lambda trace=trace: mixed_alphabet_contract(trace))


def score_contract(seqs, trace, gap, terminal, matrix=MATRIX, table=SM):
    ali = align.Alignment(seqs, np.array(trace, dtype=np.int64), None)
    codes = align.get_codes(ali)
    if not terminal:
        firsts = [np.where(codes[i] != -1)[0] for i in range(len(seqs))]
        if not all(len(f) for f in firsts) or max(f[0] for f in firsts) > min(f[-1] for f in firsts):
            return None
    got = align.score(ali, matrix, gap, terminal)
    exp = ref_score(codes, gap, terminal, table)
    if got != exp:
        return f"score(gap={gap}, terminal_penalty={terminal}) = {got}, column-wise recomputation gives {exp}"
    return None


def cigar_contract(seqs, trace, opts):
    ali = align.Alignment(seqs, np.array(trace, dtype=np.int64), None)
    tr = np.array(trace)
    if not np.any((tr[:, 0] != -1) & (tr[:, 1] != -1)):
        return None
    seg_cols = np.where(tr[:, 1] != -1)[0]
    inner = tr[seg_cols[0]: seg_cols[-1] + 1]
    if opts.get("introns") == "auto":
        # the first run of reference positions facing gaps in the segment is declared an intron
        dele = [int(r) for r, q in inner if q == -1 and r != -1]
        if not dele:
            return None
        runs, k0 = [], 0
        while k0 < len(dele):
            k1 = k0
            while k1 + 1 < len(dele) and dele[k1 + 1] == dele[k1] + 1:
                k1 += 1
            runs.append((dele[k0], dele[k1] + 1))
            k0 = k1 + 1
        # every run of deleted reference positions is declared an intron (listed in reversed order too)
        opts = dict(opts, introns=runs if len(runs) % 2 else runs[::-1])
    cig = align.write_alignment_to_cigar(ali, **opts)
    if opts.get("introns"):
        import re as _re
        n_ops = [int(x) for x, o in _re.findall(r"(\d+)([MIDNSHP=X])", cig) if o == "N"]
        if sum(n_ops) != sum(b - a for a, b in opts["introns"]) or "D" in cig:
            return f"introns {opts['introns']} are written as {cig!r}: every intron position is an 'N' and no deletion remains"
    # position of the first aligned reference base
    both = np.where(tr[:, 0] != -1)[0]
    ref_idx = inner[:, 0][inner[:, 0] != -1]
    if len(ref_idx) == 0:
        return None
    pos = int(ref_idx[0]) if not opts.get("include_terminal_gaps") else int(tr[:, 0][tr[:, 0] != -1][0])
    segment = seqs[1]
    if opts.get("hard_clip"):
        segment = seqs[1][int(tr[seg_cols[0], 1]): int(tr[seg_cols[-1], 1]) + 1]
    back = align.read_alignment_from_cigar(cig, pos, seqs[0], segment)
    exp = inner if not opts.get("include_terminal_gaps") else tr
    got = back.trace
    if opts.get("hard_clip"):
        got = got.copy()
        got[:, 1][got[:, 1] != -1] += int(tr[seg_cols[0], 1])
    if got.tolist() != exp.tolist():
        return f"CIGAR {cig!r} (options {opts}) read back as {got.tolist()}, expected {exp.tolist()}"
    return None


def cigar_index_options(seqs, trace, opts):
    """reference_index / segment_index: the CIGAR of rows (r, s) of any alignment is the CIGAR that the two-row
    alignment of exactly these rows gives with the default indices (rows swapped; rows 2 and 0 of a 3-row alignment)"""
    tr = np.array(trace, dtype=np.int64)
    if not np.any((tr[:, 0] != -1) & (tr[:, 1] != -1)):
        return None
    base = align.write_alignment_to_cigar(align.Alignment(seqs, tr, None), **opts)
    swapped = align.Alignment([seqs[1], seqs[0]], tr[:, ::-1].copy(), None)
    got = align.write_alignment_to_cigar(swapped, reference_index=1, segment_index=0, **opts)
    if got != base:
        return f"rows swapped, reference_index=1, segment_index=0: {got!r}, default indices on the unswapped rows give {base!r} (options {opts})"
    filler = seq.NucleotideSequence("A" * len(tr))
    three = align.Alignment([seqs[1], filler, seqs[0]], np.stack([tr[:, 1], np.arange(len(tr)), tr[:, 0]], axis=1), None)
    got3 = align.write_alignment_to_cigar(three, reference_index=2, segment_index=0, **opts)
    if got3 != base:
        return f"rows (2, 0) of a 3-row alignment: {got3!r}, the two-row alignment gives {base!r} (options {opts})"
    # a column of a multiple alignment in which both chosen rows have a gap (only a third row has a symbol there)
    # says nothing about the pair: the conversion refuses it (ValueError) or ignores it - it never counts it as a
    # deletion or an insertion
    if len(tr) >= 2:
        mid = len(tr) // 2
        filler2 = seq.NucleotideSequence("A" * (len(tr) + 1))
        t3 = np.stack([tr[:, 1], np.arange(len(tr)), tr[:, 0]], axis=1)
        t3[mid:, 1] += 1
        extra = np.array([[-1, mid, -1]])
        with_col = align.Alignment([seqs[1], filler2, seqs[0]], np.concatenate([t3[:mid], extra, t3[mid:]]), None)
        try:
            got4 = align.write_alignment_to_cigar(with_col, reference_index=2, segment_index=0, **opts)
        except ValueError:
            got4 = None
        if got4 is not None and got4 != base:
            return (f"rows (2, 0) of a 3-row alignment with a column in which both are gaps: {got4!r}, without that column {base!r} "
                    f"(options {opts}): the column was counted")
    return None


def terminal_gap_contract(seqs, trace):
    """find_terminal_gaps / remove_terminal_gaps against a column-by-column recomputation: the kept columns are those
    from the last first symbol of any row to the first last symbol of any row; rows that do not overlap are refused"""
    tr = np.array(trace, dtype=np.int64)
    ali = align.Alignment(seqs, tr, None)
    n = tr.shape[1]
    cols = [[k for k in range(len(tr)) if tr[k, r] != -1] for r in range(n)]
    if not all(cols):
        return None
    start, stop = max(c[0] for c in cols), min(c[-1] for c in cols) + 1
    got = tuple(int(x) for x in align.find_terminal_gaps(ali))
    if got != (start, stop):
        return f"find_terminal_gaps = {got}, column-wise recomputation gives {(start, stop)}"
    before = tr.copy()
    try:
        cut = align.remove_terminal_gaps(ali)
    except ValueError:
        return None if stop < start else f"remove_terminal_gaps refused although columns {start}..{stop - 1} remain"
    if stop < start:
        return "remove_terminal_gaps accepted rows that do not overlap"
    if cut.trace.tolist() != before[start:stop].tolist() or [str(x) for x in cut.sequences] != [str(x) for x in seqs]:
        return f"remove_terminal_gaps gives trace {cut.trace.tolist()}, expected columns {start}..{stop - 1}"
    if ali.trace.tolist() != before.tolist():
        return "remove_terminal_gaps changed the alignment it was given"
    if len(cut.trace) and (np.any(cut.trace[0] == -1) and False):
        return "first column has a gap"
    return None


WORDS = ["A", "C", "AC", "CA", "AA", "ACA", "CCA"]
pairs = [(a, b) for a in WORDS for b in WORDS if len(a) <= 3 and len(b) <= 3]
if not R.thorough:
    pairs = pairs[::3]
GAPS = [-3, (-5, -1), (-2, -2)]
for a, b in pairs:
    seqs = [seq.NucleotideSequence(a), seq.NucleotideSequence(b)]
    for trace in all_traces(len(a), len(b)):
        desc = {"seqs": [a, b], "trace": trace}
        R.check("conversions recover trace and sequences; helpers == column-wise recomputation", "pairwise conversions", desc,
                lambda seqs=seqs, trace=trace: conversions(seqs, trace))
        R.check("conversions recover trace and sequences; helpers == column-wise recomputation", "terminal gaps", desc,
                lambda seqs=seqs, trace=trace: terminal_gap_contract(seqs, trace))
        for gap in GAPS:
            for term in (True, False):
                R.check("score() == column-wise recomputation", f"score gap={gap} terminal={term}", dict(desc, gap=gap, terminal=term),
                        lambda seqs=seqs, trace=trace, gap=gap, term=term: score_contract(seqs, trace, gap, term))
                if a != b:
                    R.check("score() == column-wise recomputation", f"score, asymmetric matrix, gap={gap} terminal={term}",
                            dict(desc, gap=gap, terminal=term, matrix="asymmetric"),
                            lambda seqs=seqs, trace=trace, gap=gap, term=term: score_contract(seqs, trace, gap, term, ASYM, ASYM_TABLE))
        for opts in ({}, {"distinguish_matches": True}, {"hard_clip": True}, {"include_terminal_gaps": True}, {"introns": "auto"},
                     {"introns": "auto", "distinguish_matches": True}):
            R.check("CIGAR write/read recovers the trace", f"cigar {sorted(opts)}", dict(desc, opts=opts),
                    lambda seqs=seqs, trace=trace, opts=opts: cigar_contract(seqs, trace, opts))
            if "introns" not in opts:
                R.check("CIGAR write/read recovers the trace", f"cigar index options {sorted(opts)}", dict(desc, opts=opts),
                        lambda seqs=seqs, trace=trace, opts=opts: cigar_index_options(seqs, trace, opts))

# local alignments: the trace covers only a window of each sequence (clipped bases at the segment ends)
LOCAL = [("ACACA", "CAC"), ("CACAC", "ACA"), ("AACCA", "ACCAA")]
for a, b in LOCAL:
    seqs = [seq.NucleotideSequence(a), seq.NucleotideSequence(b)]
    for i0 in range(0, 2):
        for j0 in range(0, 3):
            for ln in (1, 2):
                if i0 + ln + 1 > len(a) or j0 + ln > len(b):
                    continue
                for shape in ("match", "del", "ins"):
                    if shape == "match":
                        trace = [(i0 + k, j0 + k) for k in range(ln)]
                    elif shape == "del":
                        trace = [(i0, j0), (i0 + 1, -1)] + [(i0 + 2 + k, j0 + 1 + k) for k in range(ln - 1) if i0 + 2 + k < len(a) and j0 + 1 + k < len(b)]
                    else:
                        if j0 + 2 >= len(b):
                            continue
                        trace = [(i0, j0), (-1, j0 + 1), (i0 + 1, j0 + 2)]
                    if len(trace) < 1 or trace[-1][1] == -1 or trace[0][1] == -1:
                        continue
                    for opts in ({}, {"hard_clip": True}, {"distinguish_matches": True, "hard_clip": True}):
                        R.check("CIGAR write/read recovers the trace", f"local cigar {sorted(opts)}", {"seqs": [a, b], "trace": trace, "opts": opts},
                                lambda seqs=seqs, trace=trace, opts=opts: cigar_contract(seqs, trace, opts))

# three rows, staggered
S3 = [seq.NucleotideSequence(x) for x in ("ACGTAC", "GTACGT", "ACGT")]
T3 = [
    [(0, -1, 0), (1, -1, 1), (2, 0, 2), (3, 1, 3), (4, 2, -1), (5, 3, -1), (-1, 4, -1), (-1, 5, -1)],
    [(0, -1, -1), (1, -1, -1), (2, 0, 0), (3, 1, 1), (4, 2, 2), (5, 3, 3), (-1, 4, -1), (-1, 5, -1)],
    [(-1, 0, -1), (0, 1, 0), (1, -1, 1), (2, 2, -1), (3, 3, 2), (4, 4, 3), (5, 5, -1)],
]
for trace in T3:
    R.check("conversions recover trace and sequences; helpers == column-wise recomputation", "3-row conversions", {"trace": trace},
            lambda trace=trace: conversions(S3, trace))
    for gap in GAPS:
        for term in (True, False):
            R.check("score() == column-wise recomputation", f"3-row score gap={gap} terminal={term}", {"trace": trace, "gap": gap, "terminal": term},
                    lambda trace=trace, gap=gap, term=term: score_contract(S3, trace, gap, term))
            R.check("score() == column-wise recomputation", f"3-row score, asymmetric matrix, gap={gap} terminal={term}",
                    {"trace": trace, "gap": gap, "terminal": term, "matrix": "asymmetric"},
                    lambda trace=trace, gap=gap, term=term: score_contract(S3, trace, gap, term, ASYM, ASYM_TABLE))

def identity_contract(seqs, trace):
    """get_sequence_identity / get_pairwise_sequence_identity in every mode against a column-by-column count;
    the trace may cover only a part of each sequence (local alignments, clipped CIGARs, sliced alignments)"""
    ali = align.Alignment(seqs, np.array(trace, dtype=np.int64), None)
    n = len(seqs)
    cols = [tuple(t) for t in trace]

    def count(i, j, mode):
        match = sum(1 for t in cols if t[i] != -1 and t[j] != -1 and seqs[i].code[t[i]] == seqs[j].code[t[j]])
        if mode == "all":
            return match, len(cols)
        if mode == "shortest":
            return match, min(len(seqs[i]), len(seqs[j]))
        firsts = [[k for k, t in enumerate(cols) if t[r] != -1] for r in (i, j)]
        if not all(firsts):
            return match, 0
        start, stop = max(f[0] for f in firsts), min(f[-1] for f in firsts) + 1
        return match, max(stop - start, 0)
    for mode in ("all", "not_terminal", "shortest"):
        exp = [[count(i, j, mode) for j in range(n)] for i in range(n)]
        try:
            got = align.get_pairwise_sequence_identity(ali, mode)
        except ValueError:
            if mode == "not_terminal" and any(d == 0 for row in exp for _, d in row):
                continue
            raise
        for i in range(n):
            for j in range(n):
                m, d = exp[i][j]
                if d and abs(float(got[i, j]) - m / d) > 1e-9:
                    return f"get_pairwise_sequence_identity({mode})[{i},{j}] = {float(got[i, j]):.4f}, column count gives {m}/{d}"
        # identity over ALL rows: columns in which every row has the same symbol (and no gap)
        m_all = sum(1 for t in cols if all(x != -1 for x in t) and len({int(seqs[r].code[t[r]]) for r in range(n)}) == 1)
        if mode == "all":
            d_all = len(cols)
        elif mode == "shortest":
            d_all = min(len(x) for x in seqs)
        else:
            firsts = [[k for k, t in enumerate(cols) if t[r] != -1] for r in range(n)]
            d_all = (min(f[-1] for f in firsts) + 1 - max(f[0] for f in firsts)) if all(firsts) else 0
        try:
            g1 = align.get_sequence_identity(ali, mode)
        except ValueError:
            if mode == "not_terminal" and d_all <= 0:
                continue
            raise
        if d_all > 0 and abs(g1 - m_all / d_all) > 1e-9:
            return f"get_sequence_identity({mode}) over {n} rows = {g1:.4f}, column count gives {m_all}/{d_all}"
    return None


ID_SEQS = [seq.NucleotideSequence(x) for x in ("ACACGT", "CCAGT", "TACG")]
ID_TRACES2 = [[(1, 0), (2, 1), (3, 2)], [(0, 1), (1, -1), (2, 2), (3, 3)], [(2, 0), (3, 1), (-1, 2), (4, 3), (5, 4)], [(0, 0), (1, 1), (2, 2), (3, 3), (4, 4), (5, -1)],
              [(3, 2)], [(1, 1), (2, -1), (3, -1), (4, 2)]]
ID_TRACES3 = [[(1, 0, -1), (2, 1, 0), (3, 2, 1), (4, -1, 2)], [(0, 0, 0), (1, 1, 1), (2, 2, 2), (3, 3, 3)], [(2, -1, 1), (3, 2, 2), (4, 3, -1)],
              [(0, 1, 1), (1, 2, 2), (2, 3, 3), (4, 0, 0)], [(0, 0, 1), (2, 1, 3), (4, 3, 2), (5, 4, 0)]]
for trace in ID_TRACES2:
    for a, b in ((0, 1), (1, 0)):
        tr = [(t[a], t[b]) for t in trace]
        if all(x < len(ID_SEQS[r]) for t in tr for r, x in zip((a, b), t)):
            R.check("identity helpers == column-by-column recomputation", "identity of partial pairwise traces", {"seqs": [str(ID_SEQS[a]), str(ID_SEQS[b])], "trace": tr},
                    lambda a=a, b=b, tr=tr: identity_contract([ID_SEQS[a], ID_SEQS[b]], tr))
for trace in ID_TRACES3 + [[(0, -1, -1), (1, -1, -1), (2, 0, -1), (3, 1, 0), (4, 2, 1), (-1, 3, 2), (-1, -1, 3)], [(0, -1, -1), (1, 0, -1), (-1, 1, -1), (-1, 2, 0), (-1, -1, 1)]]:
    R.check("conversions recover trace and sequences; helpers == column-wise recomputation", "terminal gaps of 3-row traces", {"trace": trace},
            lambda trace=trace: terminal_gap_contract(ID_SEQS, trace))
for trace in ID_TRACES3:
    R.check("identity helpers == column-by-column recomputation", "identity of partial 3-row traces", {"trace": trace},
            lambda trace=trace: identity_contract(ID_SEQS, trace))

def fasta_type_contract(texts, cls_name, trace):
    """FASTA round trip of an alignment with the sequence type given: the rows come back as sequences of that type,
    equal to the ones written -- also when a protein row consists of letters that are nucleotide codes as well
    (MKHGASTRVDNCWY ...), which the automatic detection would take for a nucleotide sequence"""
    cls = {"protein": seq.ProteinSequence, "nucleotide": seq.NucleotideSequence}[cls_name]
    seqs = [cls(t) for t in texts]
    ali = align.Alignment(seqs, np.array(trace), score=7)
    f = fasta.FastaFile()
    fasta.set_alignment(f, ali, [f"s{i}" for i in range(len(seqs))])
    s_io = io.StringIO()
    f.write(s_io)
    with warnings.catch_warnings():
        warnings.simplefilter("ignore")
        back = fasta.get_alignment(fasta.FastaFile.read(io.StringIO(s_io.getvalue())), seq_type=cls)
    if back.trace.tolist() != np.array(trace).tolist():
        return f"trace {back.trace.tolist()}"
    for r, (x, y) in enumerate(zip(back.sequences, seqs)):
        if type(x) is not cls or not (x == y) or x.code.tolist() != y.code.tolist():
            return f"row {r} comes back as {type(x).__name__} {str(x)!r} (codes {x.code.tolist()}), written {cls.__name__} {str(y)!r} (codes {y.code.tolist()})"
    if align.get_codes(back).tolist() != align.get_codes(ali).tolist():
        return "code matrix of the re-read alignment differs"
    return None


import warnings
_FT = [(0, 0), (1, 1), (2, -1), (3, 2), (-1, 3)]
for texts, cls_name in ((["MKHG", "ASTR"], "protein"), (["VDNC", "WYAC"], "protein"), (["MKLF", "ACGT"], "protein"), (["ACGT", "GGTA"], "protein"),
                        (["ACGT", "GGTA"], "nucleotide"), (["ANRY", "ACGT"], "nucleotide")):
    R.check("conversions recover trace and sequences; helpers == column-wise recomputation", "FASTA alignment with the sequence type given",
            {"rows": texts, "seq_type": cls_name}, lambda texts=texts, cls_name=cls_name: fasta_type_contract(texts, cls_name, _FT))


def indexing_contract(trace):
    """Alignment[columns] / Alignment[columns, rows]: the selected columns of the trace, the selected rows with THEIR
    sequences, the score kept; len() == number of columns; == compares sequences, trace and score"""
    tr = np.array(trace, dtype=np.int64)
    ali = align.Alignment(ID_SEQS, tr, 42)
    L = len(tr)
    if len(ali) != L:
        return f"len() = {len(ali)}"
    col_sel = [slice(None), slice(1, None), slice(None, -1), slice(0, L, 2), [0, L - 1], np.arange(L) % 2 == 0]
    row_sel = [slice(None), [0, 2], [2, 0], [1], slice(1, 3), np.array([True, False, True]), np.array([2, 1, 0])]
    for cs in col_sel:
        sub = ali[cs]
        exp = tr[cs]
        if sub.trace.tolist() != exp.tolist() or [str(x) for x in sub.sequences] != [str(x) for x in ID_SEQS] or sub.score != 42:
            return f"alignment[{cs}] has trace {sub.trace.tolist()}, expected {exp.tolist()}"
        for rs in row_sel:
            if not isinstance(cs, slice) and not isinstance(rs, slice):
                continue          # two index arrays are paired element-wise by NumPy: not a column x row selection
            sub = ali[cs, rs]
            exp = tr[cs][:, rs]
            rows = list(np.arange(3)[rs])
            if sub.trace.tolist() != exp.tolist():
                return f"alignment[{cs}, {rs}] has trace {sub.trace.tolist()}, expected {exp.tolist()}"
            if [str(x) for x in sub.sequences] != [str(ID_SEQS[r]) for r in rows]:
                return f"alignment[{cs}, {rs}] carries the sequences {[str(x) for x in sub.sequences]}, rows {rows} were selected"
            if sub.score != 42:
                return "indexing lost the score"
    same = align.Alignment(ID_SEQS, tr.copy(), 42)
    if not (ali == same) or ali == align.Alignment(ID_SEQS, tr.copy(), 41) or ali == align.Alignment(ID_SEQS, tr[::-1].copy(), 42) or \
            ali == align.Alignment(ID_SEQS[::-1], tr.copy(), 42) or ali == "x":
        return "== of alignments"
    if ali.trace.tolist() != tr.tolist():
        return "indexing changed the alignment"
    return None


for trace in ID_TRACES3:
    R.check("conversions recover trace and sequences; helpers == column-wise recomputation", "alignment indexing", {"trace": trace},
            lambda trace=trace: indexing_contract(trace))

# progressive multiple alignment
POOL = ["ACGT", "ACT", "AGGT", "TTACG", "ACGTT", "CGT"]
for combo in itertools.combinations(POOL, 3):
    def msa(combo=combo):
        seqs = [seq.NucleotideSequence(x) for x in combo]
        ali, order, tree, dist = align.align_multiple(seqs, MATRIX, gap_penalty=-5)
        v = valid_trace(ali.trace, [len(s) for s in seqs])
        if v:
            return v
        for r, s in enumerate(seqs):
            idx = ali.trace[:, r]
            if idx[idx != -1].tolist() != list(range(len(s))):
                return f"row {r} does not contain input {r} completely and in order"
        if sorted(order.tolist()) != list(range(len(seqs))):
            return f"order {order.tolist()} is not a permutation"
        leaves = sorted(l.index for l in tree.leaves)
        if leaves != list(range(len(seqs))):
            return f"guide tree leaves {leaves}"
        return None
    R.check("align_multiple: rows are the inputs in order, order is a permutation, tree has every sequence once", "msa", {"seqs": list(combo)}, msa)
R.finish()
