#!/venv/bin/python
"""BOUNDED stand-in for C03: encoding bijection and string-like behaviour of
sequences.  Bound: every symbol / code (and the neighbours of the code range)
of the standard alphabets and of small generic / letter / k-mer alphabets,
sequences of length <= 3 over those alphabets, all 64 codons under every
codon table, ORF search on all nucleotide sequences of length 6..7 from a
reduced pool."""
import itertools
import sys
import numpy as np
sys.path.insert(0, "/verif")
from bounded.common import Run
import biotite.sequence as seq
import biotite.sequence.align as align

R = Run("C03", "all symbols/codes of standard and small alphabets, sequences of length <= 3, 64 codons x all codon tables, ORFs on short sequences")
ALPHABETS = {
    "dna-unamb": seq.NucleotideSequence.alphabet_unamb, "dna-amb": seq.NucleotideSequence.alphabet_amb,
    "protein": seq.ProteinSequence.alphabet, "generic": seq.Alphabet(["foo", "bar", 42, ("t", 1)]),
    "letters": seq.LetterAlphabet("xyz+"), "kmer2": align.KmerAlphabet(seq.NucleotideSequence.alphabet_unamb, 2),
    "kmer3-spaced": align.KmerAlphabet(seq.LetterAlphabet("ab"), 3, spacing=[0, 1, 3]),
}


def bijection(name, alph):
    n = len(alph)
    syms = alph.get_symbols()
    if len(syms) != n:
        return "len(alphabet) != number of symbols"
    for c, s in enumerate(syms):
        if alph.encode(s) != c:
            return f"encode({s!r}) = {alph.encode(s)} != {c}"
        d = alph.decode(c)
        norm = lambda x: "".join(map(str, x)) if isinstance(x, (np.ndarray, list, tuple)) and not isinstance(s, tuple) else x
        if norm(d) != norm(s) and str(d) != str(s):
            return f"decode({c}) = {d!r} != {s!r}"
    for bad in (-1, -2, -n, -255, -256, -257, -256 + (n - 1), -512, -512 + 1, -489, -253, -2 ** 31, n, n + 1, 255, 256, 257, 2 ** 31):
        if bad < 0 or bad >= n:
            for fn in ("decode", "decode_multiple"):
                try:
                    r = alph.decode(bad) if fn == "decode" else alph.decode_multiple(np.array([0, bad]))
                    return f"{fn}({bad}) returned {r!r} instead of raising AlphabetError (alphabet of {n} symbols)"
                except seq.AlphabetError:
                    pass
                except (OverflowError, IndexError, ValueError, TypeError) as e:
                    return f"{fn}({bad}) raised {type(e).__name__} instead of AlphabetError"
    for bad in ("?", "not-a-symbol", 3.5):
        try:
            alph.encode(bad)
            return f"encode({bad!r}) did not raise"
        except seq.AlphabetError:
            pass
        except TypeError:
            if isinstance(bad, str):
                return f"encode({bad!r}) raised TypeError instead of AlphabetError"
        except Exception as e:
            return f"encode({bad!r}) raised {type(e).__name__} instead of AlphabetError"
    codes = np.arange(n)
    if list(alph.encode_multiple(alph.decode_multiple(codes))) != list(codes):
        return "encode_multiple(decode_multiple(codes)) != codes"
    return None


for name, alph in ALPHABETS.items():
    R.check("encode/decode are mutually inverse; out-of-range raises AlphabetError", f"alphabet {name}", {"alphabet": name},
            lambda name=name, alph=alph: bijection(name, alph))


def seq_behaviour(cls, text):
    s = cls(text)
    if str(s) != text or len(s) != len(text):
        return f"str() gives {str(s)!r}"
    for i in range(-len(text), len(text)):
        if s[i] != text[i]:
            return f"s[{i}] = {s[i]!r}"
    for sl in (slice(None, None), slice(1, None), slice(None, -1), slice(None, None, -1), slice(0, 2)):
        if str(s[sl]) != text[sl]:
            return f"s[{sl}] = {str(s[sl])!r} != {text[sl]!r}"
    if str(s.reverse()) != text[::-1]:
        return "reverse"
    if str(s + s) != text + text:
        return "concatenation"
    c = s.copy()
    if c != s or c.code is s.code:
        return "copy not equal / shares code"
    if len(text) > 0:
        c[0] = text[-1]
        if str(c) != text[-1] + text[1:] or str(s) != text:
            return "assignment through a copy changed the original or failed"
    # derived sequences are values of their own (documented: the code is copied): assigning into one does not
    # change the sequence it was made from, whatever the length
    if len(text) > 0:
        derived = {"reverse()": s.reverse(), "s + s": s + s, "copy()": s.copy(), "s[:] of a copy": s.copy()[:]}
        if cls is seq.NucleotideSequence:
            derived["complement()"] = s.complement()
            derived["reverse().complement()"] = s.reverse().complement()
        for how, d in derived.items():
            if how == "s[:] of a copy":
                continue
            other = [x for x in s.get_alphabet().get_symbols() if x != d[0]][0]
            d[0] = other
            if len(d) > 1:
                d[-1] = other
            if str(s) != text:
                return f"assigning into {how} changed the original: {str(s)!r} instead of {text!r}"
    if cls is seq.NucleotideSequence:
        comp = {"A": "T", "C": "G", "G": "C", "T": "A", "N": "N", "R": "Y", "Y": "R", "S": "S", "W": "W", "K": "M", "M": "K",
                "B": "V", "V": "B", "D": "H", "H": "D"}
        if str(s.complement()) != "".join(comp[ch] for ch in text):
            return f"complement {str(s.complement())!r}"
        if str(s.complement().complement()) != text:
            return "complement is not an involution"
    # a sequence restored from a pickle / deep copy behaves like the original
    import copy as _copy
    import pickle as _pickle
    for how, r in (("pickle", _pickle.loads(_pickle.dumps(s))), ("deepcopy", _copy.deepcopy(s))):
        try:
            views = {"str": str(r), "copy": str(r.copy()), "slice": str(r[1:]), "reverse": str(r.reverse()), "concat": str(r + r)}
            if cls is seq.NucleotideSequence:
                views["complement"] = str(r.complement().complement())
        except Exception as e:
            return f"sequence restored by {how}: {type(e).__name__}: {e}"
        exp = {"str": text, "copy": text, "slice": text[1:], "reverse": text[::-1], "concat": text + text, "complement": text}
        for k, v in views.items():
            if v != exp[k]:
                return f"sequence restored by {how}: {k} gives {v!r}, expected {exp[k]!r}"
        if r != s or r.copy() != s:
            return f"sequence restored by {how} (or its copy) is not equal to the original"
    # out-of-range code assignment must not silently alias
    n = len(s.get_alphabet())
    for bad in (n, 256 + 1, 259):
        for dt in (np.int64, np.int32, np.int16, np.uint16, np.uint32, np.uint64):
            # (codes of a sequence over a larger alphabet are uint16 / uint32 arrays: every integer dtype counts)
            t = cls(text)
            try:
                t.code = np.array([bad, 0][: 1 + len(text) % 2], dtype=dt)
                dec = str(t)
                return f"code = np.array([{bad}, ...], dtype={np.dtype(dt).name}) accepted and decoded as {dec!r} (alphabet has {n} symbols)"
            except (seq.AlphabetError, ValueError, OverflowError, IndexError):
                pass
    # ... and codes inside the range are taken from every integer dtype
    if n > 1:
        for dt in (np.int64, np.uint8, np.uint16, np.uint32, np.uint64, np.int8):
            t = cls(text)
            t.code = np.array([n - 1, 0, 1], dtype=dt)
            if [int(c) for c in t.code] != [n - 1, 0, 1] or list(t.symbols) != [s.get_alphabet().decode(c) for c in (n - 1, 0, 1)]:
                return f"code = np.array([{n - 1}, 0, 1], dtype={np.dtype(dt).name}) gives the codes {t.code.tolist()}"
    return None


for cls, pool in ((seq.NucleotideSequence, "ACGT"), (seq.NucleotideSequence, "ANRY"), (seq.ProteinSequence, "ACW*"),
                  (seq.NucleotideSequence, "WSKMBVDH")):          # the remaining ambiguity codes (pairs only)
    for n in range(0, 4 if len(pool) == 4 else 3):
        for t in itertools.product(pool, repeat=n):
            R.check("sequence objects agree with their strings", f"{cls.__name__} ops", {"text": "".join(t)},
                    lambda cls=cls, t=t: seq_behaviour(cls, "".join(t)))


def equality_contract():
    """== agrees with: same type, same alphabet, same symbol string"""
    A1, A2 = seq.LetterAlphabet("ABC"), seq.LetterAlphabet("XYZ")
    G1, G2 = seq.Alphabet(["foo", "bar", 42]), seq.Alphabet([42, "foo", "bar"])
    items = []
    for text in ("", "A", "AB", "ABCA", "CAB"):
        items.append(("general/ABC", text, seq.GeneralSequence(A1, text)))
        items.append(("general/XYZ", text.translate(str.maketrans("ABC", "XYZ")),
                      seq.GeneralSequence(A2, text.translate(str.maketrans("ABC", "XYZ")))))
    for syms in (["foo"], ["foo", "bar"], [42, "foo"]):
        items.append(("general/G1", repr(syms), seq.GeneralSequence(G1, syms)))
        items.append(("general/G2", repr(syms), seq.GeneralSequence(G2, syms)))
    for text in ("", "A", "ACGT", "ACGA"):
        items.append(("nuc/unamb", text, seq.NucleotideSequence(text)))
        items.append(("nuc/amb", text, seq.NucleotideSequence(text, ambiguous=True)))
        items.append(("protein", text, seq.ProteinSequence(text)))
    for k1, t1, s1 in items:
        for k2, t2, s2 in items:
            same_alph = s1.get_alphabet() == s2.get_alphabet()
            symbols_equal = list(s1.symbols) == list(s2.symbols)
            expected = type(s1) is type(s2) and same_alph and symbols_equal
            got = (s1 == s2)
            if bool(got) != expected:
                return (f"{k1} {t1!r} == {k2} {t2!r} gives {got}; same type {type(s1) is type(s2)}, "
                        f"same alphabet {same_alph}, same symbols {symbols_equal}")
            if expected and (s1 != s2):
                return f"{k1} {t1!r} != {k2} {t2!r} although equal"
    return None


def translate_contract(table_id):
    table = seq.CodonTable.load(table_id)
    before = dict(table.codon_dict())
    for codon in itertools.product("ACGT", repeat=3):
        c = "".join(codon)
        s = seq.NucleotideSequence(c * 2)
        prot = s.translate(complete=True, codon_table=table)
        if str(prot) != before[c] * 2:
            return f"translate({c}{c}) = {str(prot)!r}, table says {before[c]!r}"
    # derived tables must not change their parent
    derived = table.with_codon_mappings({"CTG": "M"}).with_start_codons(["AAA"])
    if dict(table.codon_dict()) != before:
        changed = {k: (before[k], v) for k, v in table.codon_dict().items() if before[k] != v}
        return f"deriving a table changed its parent: {changed}"
    if derived["CTG"] != "M":
        return "derived table lacks the new mapping"
    return None


for tid in (1, 2, 4, 11):
    R.check("translation == codon-wise lookup; derived tables leave the parent untouched", f"codon table {tid}", {"table": tid},
            lambda tid=tid: translate_contract(tid))


def codon_table_api(table_id):
    """every view of a codon table agrees with its codon -> amino acid dictionary: symbol and code look-ups in both
    directions, the vectorised map_codon_codes / is_start_codon, start codons, and tables derived from it"""
    table = seq.CodonTable.load(table_id)
    nuc, prot = seq.NucleotideSequence.alphabet_unamb, seq.ProteinSequence.alphabet
    cd = table.codon_dict()
    if sorted(cd) != sorted("".join(c) for c in itertools.product("ACGT", repeat=3)):
        return "codon_dict() does not list the 64 codons"
    cdc = table.codon_dict(code=True)
    for codon, aa in cd.items():
        code = tuple(int(x) for x in nuc.encode_multiple(codon))
        if table[codon] != aa:
            return f"table[{codon!r}] = {table[codon]!r}, codon_dict says {aa!r}"
        if int(table[code]) != prot.encode(aa) or int(table[list(code)]) != prot.encode(aa) or int(table[np.array(code)]) != prot.encode(aa):
            return f"table[{code}] = {table[code]}, the code of {aa!r} is {prot.encode(aa)}"
        if int(cdc[code]) != prot.encode(aa):
            return f"codon_dict(code=True)[{code}] = {cdc[code]}"
    for aa in sorted(set(cd.values())) + ["X"]:
        exp = sorted(c for c, a in cd.items() if a == aa)
        if sorted(table[aa]) != exp:
            return f"table[{aa!r}] = {sorted(table[aa])}, the codons of that amino acid are {exp}"
        expc = sorted(tuple(int(x) for x in nuc.encode_multiple(c)) for c in exp)
        if sorted(tuple(int(x) for x in c) for c in table[prot.encode(aa)]) != expc:
            return f"table[code of {aa!r}] = {table[prot.encode(aa)]}"
    all_codes = np.array(list(itertools.product(range(4), repeat=3)))
    mapped = table.map_codon_codes(all_codes)
    exp = [prot.encode(cd["".join(nuc.decode_multiple(c))]) for c in all_codes]
    if [int(x) for x in mapped] != exp:
        return "map_codon_codes differs from the codon dictionary"
    if [int(x) for x in table.map_codon_codes(all_codes[::-1][:7])] != exp[::-1][:7] or len(table.map_codon_codes(all_codes[:0])) != 0:
        return "map_codon_codes on a reordered / empty batch differs from the codon dictionary"
    starts = set(table.start_codons())
    if set(tuple(int(x) for x in c) for c in table.start_codons(code=True)) != {tuple(int(x) for x in nuc.encode_multiple(c)) for c in starts}:
        return "start_codons(code=True) differs from start_codons()"
    isstart = table.is_start_codon(all_codes)
    if [bool(x) for x in isstart] != ["".join(nuc.decode_multiple(c)) in starts for c in all_codes]:
        return "is_start_codon differs from start_codons()"
    d2 = table.with_start_codons(["AAA", "CCC"])
    if set(d2.start_codons()) != {"AAA", "CCC"} or d2.codon_dict() != cd or set(table.start_codons()) != starts:
        return "with_start_codons"
    d3 = table.with_codon_mappings({"AAA": "W", "TGA": "C"})
    exp3 = dict(cd, AAA="W", TGA="C")
    if d3.codon_dict() != exp3 or table.codon_dict() != cd or set(d3.start_codons()) != starts:
        return "with_codon_mappings"
    if not (table == seq.CodonTable.load(table_id)) or table == d3 or (table == d2) != (starts == {"AAA", "CCC"}):
        return "== of codon tables"
    for bad in ("AA", "AAAA", ""):
        try:
            table[bad]
            return f"table[{bad!r}] did not raise"
        except (ValueError, seq.AlphabetError, KeyError, IndexError):
            pass
    return None


for tid in (1, 2, 3, 4, 5, 6, 11, 12):
    R.check("translation == codon-wise lookup; derived tables leave the parent untouched", f"codon table API {tid}", {"table": tid},
            lambda tid=tid: codon_table_api(tid))


def codon_table_database():
    """every table of the shipped NCBI table file, under its id and under each of its names, is the table the file
    lists (amino acid and start codon of each of the 64 codons, read here independently of the library)"""
    import os
    path = os.path.join(os.path.dirname(seq.__file__), "codon_tables.txt")
    tables, cur = [], None
    for line in open(path).read().split("\n"):
        if line.startswith("name"):
            cur = {"names": [x.strip() for x in line[4:].split(";") if x.strip()]}
            tables.append(cur)
        elif line.startswith("id") and cur is not None:
            cur["id"] = int(line[2:])
        elif cur is not None:
            for key in ("AA", "Init", "Base1", "Base2", "Base3"):
                if line.startswith(key + " "):
                    cur[key] = line[len(key):].strip()
    if len(tables) < 20:
        return f"only {len(tables)} tables found in {path}"
    all_names = [n for t in tables for n in t["names"]]
    if sorted(seq.CodonTable.table_names()) != sorted(all_names):
        return "table_names() differs from the names in the table file"
    for t in tables:
        exp = {t["Base1"][k] + t["Base2"][k] + t["Base3"][k]: t["AA"][k] for k in range(64)}
        starts = {t["Base1"][k] + t["Base2"][k] + t["Base3"][k] for k in range(64) if t["Init"][k] not in "-*"}
        for key in [t["id"]] + t["names"]:
            tab = seq.CodonTable.load(key)
            if tab.codon_dict() != exp:
                diff = {c: (tab.codon_dict()[c], a) for c, a in exp.items() if tab.codon_dict()[c] != a}
                return f"CodonTable.load({key!r}) is not table {t['id']} of the file: codon -> (loaded, file) {dict(list(diff.items())[:4])}"
            if set(tab.start_codons()) != starts:
                return f"CodonTable.load({key!r}): start codons {sorted(tab.start_codons())}, table {t['id']} of the file has {sorted(starts)}"
    for bad in ("No such table", 999, "Flatworm"):
        try:
            seq.CodonTable.load(bad)
            return f"CodonTable.load({bad!r}) did not raise"
        except ValueError:
            pass
    return None


R.check("translation == codon-wise lookup; derived tables leave the parent untouched", "codon table database", {"file": "codon_tables.txt"}, codon_table_database)


def orf_contract(text, table_name="default", met=None):
    """met: None = the documented default (the start codon is translated like every other codon), False / True =
    the option given explicitly (True: the first residue is methionine whatever the start codon codes for)"""
    s = seq.NucleotideSequence(text)
    table = {"default": seq.CodonTable.default_table, "table 11": lambda: seq.CodonTable.load(11),
             "TTG/CTG starts": lambda: seq.CodonTable.default_table().with_start_codons(["TTG", "CTG"])}[table_name]()
    starts = set(table.start_codons())
    cd = table.codon_dict()
    prots, pos = s.translate(complete=False, codon_table=table, **({} if met is None else {"met_start": met}))
    got = sorted((int(a), int(b), str(p)) for p, (a, b) in zip(prots, pos))
    exp = []
    for frame in range(3):
        for i in range(frame, len(text) - 2, 3):
            if text[i:i + 3] in starts:
                j = i
                aa = []
                while j + 3 <= len(text):
                    a = cd[text[j:j + 3]]
                    aa.append(a)
                    j += 3
                    if a == "*":
                        break
                exp.append((i, j, ("M" + "".join(aa)[1:]) if met else "".join(aa)))
    if got != sorted(exp):
        return f"ORFs {got} != in-frame stretches {sorted(exp)}"
    if [int(a) for a, b in pos] != sorted(int(a) for a, b in pos):
        return f"ORF positions {[(int(a), int(b)) for a, b in pos]} are not sorted by their start"
    return None


pool = ["ATG", "TAA", "CCC", "TTG", "A", "AT"]
for parts in itertools.product(pool, repeat=3):
    t = "".join(parts)
    R.check("ORFs are the in-frame stretches from each start codon to the first stop / frame end", "orf", {"seq": t}, lambda t=t: orf_contract(t))

# other start codons than ATG (bacterial table, custom start codons), with the default options and with met_start given
ALT = ["TTGAAATAA", "CTGCCCTTGTAG", "ATTGCATGACTGTAGGTGCC", "GTGTTGATGTAAATA", "ATAATCATTTGA"]
for t in ALT + ["".join(p) for p in itertools.product(["ATG", "TTG", "CTG", "TAA", "CC"], repeat=3)]:
    for tn in ("table 11", "TTG/CTG starts", "default"):
        for met in (None, False, True):
            if tn == "default" and met is None:
                continue
            R.check("ORFs are the in-frame stretches from each start codon to the first stop / frame end", "orf with other start codons",
                    {"seq": t, "table": tn, "met_start": met}, lambda t=t, tn=tn, met=met: orf_contract(t, tn, met))

# ORFs in several reading frames, a later frame starting earlier in the sequence
_orf_rng = np.random.default_rng(R.args.seed + 303)
LONG = ["CATGAAATAACCATGCCCTAG", "AATGCCCATGATGTAAGATGA", "ATGATGATGTAAATGA", "TTGCATGACATGTAGATGCC"]
for _ in range(60 if not R.thorough else 400):
    n = int(_orf_rng.integers(9, 40))
    LONG.append("".join(_orf_rng.choice(["ATG", "TAA", "TGA", "CCC", "A", "C", "GT", "TTG"], size=n))[:45])
for t in LONG:
    R.check("ORFs are the in-frame stretches from each start codon to the first stop / frame end", "orf in several frames", {"seq": t}, lambda t=t: orf_contract(t))

def ambiguous_translation(text, ambiguous, complete):
    """translate() on a sequence over the ambiguous alphabet: the result is the codon-wise lookup, and a codon
    without a table entry (or an alphabet the table does not cover) raises AlphabetError - never another value"""
    s = seq.NucleotideSequence(text, ambiguous=ambiguous)
    table = seq.CodonTable.default_table()
    cd = table.codon_dict()
    try:
        if complete:
            got = str(s.translate(complete=True, codon_table=table))
        else:
            prots, pos = s.translate(complete=False, codon_table=table)
            got = sorted((int(a), int(b), str(p)) for p, (a, b) in zip(prots, pos))
    except seq.AlphabetError:
        return None
    if any(text[i:i + 3] not in cd for i in range(0, len(text) - 2, 3)) and complete:
        return f"translate(complete=True) of {text!r} = {got!r} although a codon has no table entry (AlphabetError expected)"
    if complete:
        exp = "".join(cd[text[i:i + 3]] for i in range(0, len(text), 3))
        return None if got == exp else f"translate(complete=True) of {text!r} = {got!r}, codon-wise lookup gives {exp!r}"
    if any(ch not in "ACGT" for ch in text):
        # every frame is scanned: a symbol without table entries can not be looked up
        return f"translate(complete=False) of {text!r} = {got!r} although it has symbols no codon table covers (AlphabetError expected)"
    return orf_contract_text(text, got)


def orf_contract_text(text, got):
    table = seq.CodonTable.default_table()
    starts = set(table.start_codons())
    cd = table.codon_dict()
    exp = []
    for frame in range(3):
        for i in range(frame, len(text) - 2, 3):
            if text[i:i + 3] in starts:
                j, aa = i, []
                while j + 3 <= len(text):
                    aa.append(cd[text[j:j + 3]])
                    j += 3
                    if aa[-1] == "*":
                        break
                exp.append((i, j, "".join(aa)))
    return None if got == sorted(exp) else f"ORFs {got} != in-frame stretches {sorted(exp)}"


for text in ["ATGAARTAA", "ATGAANTGA", "ATGANATAA", "NNN", "ATGRRRTAA", "ATGYTAA", "ATGAAATAA", "ATGWSKMBDHV", "TTGAAATAG"]:
    for amb in (None, True):
        for complete in (True, False):
            if complete and len(text) % 3:
                continue
            R.check("translation == codon-wise lookup; codons without entry raise AlphabetError",
                    "translate over the ambiguous alphabet", {"seq": text, "ambiguous": amb, "complete": complete},
                    lambda text=text, amb=amb, complete=complete: ambiguous_translation(text, amb, complete))


def concat_alphabets(n_small, n_large, order):
    """a + b over two alphabets one of which extends the other (sizes on both sides of the 256 / 65536 code-width
    steps): the symbols of the sum are the symbols of a followed by those of b; unrelated alphabets are refused"""
    small = seq.Alphabet([f"s{i}" for i in range(n_small)])
    large = seq.Alphabet([f"s{i}" for i in range(n_small)] + [f"t{i}" for i in range(n_large - n_small)])
    sa = [f"s{i}" for i in (0, n_small - 1, n_small // 2)]
    sb = [large.get_symbols()[i] for i in (n_large - 1, 0, n_small, min(n_large - 1, 299), min(n_large - 1, 255), min(n_large - 1, 256))]
    a, b = seq.GeneralSequence(small, sa), seq.GeneralSequence(large, sb)
    x, y = (a, b) if order == "small + large" else (b, a)
    got = x + y
    exp = list(x.symbols) + list(y.symbols)
    if list(got.symbols) != exp:
        return f"symbols of the sum {list(got.symbols)} != {exp}"
    if len(got.get_alphabet()) != n_large:
        return f"the sum has an alphabet of {len(got.get_alphabet())} symbols"
    if list(x.symbols) != (sa if x is a else sb) or list(y.symbols) != (sb if y is b else sa):
        return "an operand was changed"
    other = seq.GeneralSequence(seq.Alphabet([f"u{i}" for i in range(5)]), ["u1"])
    try:
        a + other
    except ValueError:
        return None
    return "sequences over unrelated alphabets were concatenated"


for n_small, n_large in ((3, 5), (200, 256), (200, 257), (200, 300), (256, 300), (257, 400), (4, 70000), (300, 65536), (300, 65537)):
    for order in ("small + large", "large + small"):
        R.check("sequence objects agree with their strings", "concatenation across alphabets", {"alphabet sizes": [n_small, n_large], "order": order},
                lambda n_small=n_small, n_large=n_large, order=order: concat_alphabets(n_small, n_large, order))


def nucleotide_construction(text, mode):
    """NucleotideSequence(text, ambiguous=mode): the alphabet follows the option; symbols outside the chosen alphabet
    raise AlphabetError instead of yielding another value"""
    unamb = all(c in "ACGT" for c in text.upper())
    iupac = all(c in "ACGTRYWSMKHBVDN" for c in text.upper())
    try:
        s = seq.NucleotideSequence(text, ambiguous=mode)
    except seq.AlphabetError:
        ok = (mode is False and not unamb) or (mode is not False and not iupac)
        return None if ok else f"NucleotideSequence({text!r}, ambiguous={mode}) raised AlphabetError for symbols of its alphabet"
    if (mode is False and not unamb) or not iupac:
        return f"NucleotideSequence({text!r}, ambiguous={mode}) accepted symbols outside its alphabet (alphabet of {len(s.get_alphabet())} symbols, code {s.code.tolist()})"
    want_amb = mode is True or (mode is None and not unamb)
    if (len(s.get_alphabet()) == 15) != want_amb:
        return f"NucleotideSequence({text!r}, ambiguous={mode}) uses the alphabet of {len(s.get_alphabet())} symbols"
    if str(s) != text.upper():
        return f"str() = {str(s)!r}"
    return None


for text in ("ACGT", "", "acgt", "ACGTNN", "ACR", "acgty", "N", "ACGU", "AC-T", "ACGTX"):
    for mode in (None, False, True):
        R.check("sequence objects agree with their strings", "nucleotide construction / alphabet option", {"text": text, "ambiguous": mode},
                lambda text=text, mode=mode: nucleotide_construction(text, mode))


def index_forms(kind, syms):
    """indexing and assignment agree with the symbol list for every documented form of index: Python and NumPy
    integers (an element of np.where(...)[0] or the result of np.argmax is a NumPy integer), slices, index arrays
    and boolean masks; the symbols themselves may be strings of several characters or tuples"""
    if kind == "nucleotide":
        make = lambda x: seq.NucleotideSequence("".join(x))
        alph_syms = list("ACGT")
    elif kind == "protein":
        make = lambda x: seq.ProteinSequence("".join(x))
        alph_syms = list("ACDW")
    else:
        alph_syms = {"words": ["foo", "bar", "x", ""], "tuples": [(1, 2, 3), (), (1,), ("a", "b")], "numbers": [42, 7, -1, 0]}[kind]
        alph = seq.Alphabet(alph_syms)
        make = lambda x: seq.GeneralSequence(alph, list(x))
    syms = [alph_syms[k] for k in syms]
    n = len(syms)
    s = make(syms)
    for i in range(-n, n):
        for tname, conv in (("int", int), ("np.int64", np.int64), ("np.int32", np.int32), ("np.int8", np.int8), ("np.intp", np.intp)) + \
                (() if i < 0 else (("np.uint8", np.uint8), ("np.uint64", np.uint64))):
            idx = conv(i)
            try:
                got = s[idx]
            except Exception as e:
                return f"s[{tname}({i})] raised {type(e).__name__}: {e}"
            if got != syms[i] or type(got) is not type(syms[i]) and not isinstance(got, str):
                return f"s[{tname}({i})] = {got!r} != {syms[i]!r}"
            for new in alph_syms:
                c = s.copy()
                try:
                    c[idx] = new
                except Exception as e:
                    return f"s[{tname}({i})] = {new!r} raised {type(e).__name__}: {e}"
                want = list(syms)
                want[i] = new
                if list(c.symbols) != want or list(s.symbols) != syms:
                    return f"after s[{tname}({i})] = {new!r} the symbols are {list(c.symbols)} instead of {want}"
    # several positions at once
    for name, index, positions in (("index array", np.arange(n)[::-1], list(range(n))[::-1]), ("index list", list(range(n)), list(range(n))),
                                   ("boolean mask", np.arange(n) % 2 == 0, [k for k in range(n) if k % 2 == 0]),
                                   ("np.where(...)[0]", np.where(np.arange(n) % 2 == 0)[0], [k for k in range(n) if k % 2 == 0]),
                                   ("slice", slice(0, n, 2), list(range(0, n, 2)))):
        got = list(s[index].symbols)
        if got != [syms[k] for k in positions]:
            return f"s[{name}] = {got}"
        repl = [alph_syms[(k + 1) % len(alph_syms)] for k in range(len(positions))]
        c = s.copy()
        try:
            c[index] = make(repl)
        except Exception as e:
            return f"s[{name}] = sequence raised {type(e).__name__}: {e}"
        want = list(syms)
        for k, r in zip(positions, repl):
            want[k] = r
        if list(c.symbols) != want or list(s.symbols) != syms:
            return f"after s[{name}] = {repl} the symbols are {list(c.symbols)} instead of {want}"
    return None


for kind in ("nucleotide", "protein", "words", "tuples", "numbers"):
    for n in (1, 2, 3):
        for syms in itertools.product(range(4), repeat=n):
            if n == 3 and syms[0] > 1:
                continue
            R.check("sequence objects agree with their strings", "every form of index", {"kind": kind, "symbols": list(syms)},
                    lambda kind=kind, syms=syms: index_forms(kind, syms))


def wide_alphabet_sequence(n_sym):
    """sequences over alphabets whose codes need 8, 16 or 32 bits behave like their symbol lists under construction,
    indexing, slicing, assignment, reversal, concatenation, copying and equality"""
    alph = seq.Alphabet(list(range(n_sym)))
    syms = [0, n_sym - 1, min(n_sym - 1, 255), min(n_sym - 1, 256), min(n_sym - 1, 65535), min(n_sym - 1, 65536), n_sym // 2, 1 % n_sym]
    s = seq.GeneralSequence(alph, syms)
    if list(s.symbols) != syms or len(s) != len(syms) or [int(c) for c in s.code] != syms:
        return f"symbols {list(s.symbols)} != {syms}"
    if s.code.dtype.itemsize * 8 < (n_sym - 1).bit_length():
        return f"code dtype {s.code.dtype} cannot hold {n_sym} symbols"
    for i in range(-len(syms), len(syms)):
        if s[i] != syms[i]:
            return f"s[{i}] = {s[i]}"
    for sl in (slice(1, None), slice(None, None, -1), slice(2, 6)):
        if list(s[sl].symbols) != syms[sl]:
            return f"s[{sl}]"
    if list(s.reverse().symbols) != syms[::-1] or list((s + s).symbols) != syms + syms:
        return "reverse / concatenation"
    c = s.copy()
    c[0] = n_sym - 1
    c[1:3] = seq.GeneralSequence(alph, [1 % n_sym, 0])
    if list(c.symbols) != [n_sym - 1, 1 % n_sym, 0] + syms[3:] or list(s.symbols) != syms:
        return f"assignment: {list(c.symbols)}"
    if not (s == seq.GeneralSequence(alph, syms)) or (s == c and list(c.symbols) != syms):
        return "equality"
    for bad in (n_sym, -1 - n_sym * 0 - 1):
        try:
            seq.GeneralSequence(alph, [bad])
            return f"symbol {bad} outside the alphabet was accepted"
        except seq.AlphabetError:
            pass
    t = seq.GeneralSequence(alph, syms)
    try:
        t.code = np.array([n_sym], dtype=np.int64)
        got = list(t.symbols)
        return f"code {n_sym} outside the alphabet decoded as {got}"
    except (seq.AlphabetError, ValueError, IndexError, OverflowError):
        pass
    return None


for n_sym in (2, 255, 256, 257, 300, 65535, 65536, 65537, 70000):
    R.check("sequence objects agree with their strings", "sequences over wide alphabets", {"alphabet size": n_sym}, lambda n_sym=n_sym: wide_alphabet_sequence(n_sym))


mapper_src, mapper_tgt = seq.NucleotideSequence.alphabet_unamb, seq.NucleotideSequence.alphabet_amb


def mapper_contract():
    m = seq.AlphabetMapper(mapper_src, mapper_tgt)
    codes = np.arange(len(mapper_src))
    out = m[codes]
    if [mapper_tgt.decode(c) for c in out] != [mapper_src.decode(c) for c in codes]:
        return "mapped codes decode to different symbols"
    return None


R.check("sequence objects agree with their strings", "equality across types and alphabets", {"pairs": "general/nucleotide/protein x alphabets"},
        equality_contract)
R.check("mapping codes between alphabets preserves the symbols", "alphabet mapper", {"from": "unamb", "to": "amb"}, mapper_contract)


def mapper_sizes(n_src, n_tgt, shuffle):
    """generic alphabets of the given sizes (code dtypes uint8 / uint16 / uint32 boundaries), target is a shuffled superset"""
    src = seq.Alphabet([f"s{i}" for i in range(n_src)])
    tgt_syms = [f"s{i}" for i in range(n_src)] + [f"t{i}" for i in range(n_tgt - n_src)]
    if shuffle:
        tgt_syms = tgt_syms[::-1]
    tgt = seq.Alphabet(tgt_syms)
    m = seq.AlphabetMapper(src, tgt)
    codes = np.arange(n_src)
    out = np.asarray(m[codes])
    back = [tgt.decode(int(c)) for c in out]
    if back != [src.decode(int(c)) for c in codes]:
        bad = [(int(c), b) for c, b in zip(codes, back) if b != src.decode(int(c))][:3]
        return f"codes mapped to other symbols, e.g. {bad}"
    return None


for n_src, n_tgt in [(4, 10), (20, 255), (20, 256), (20, 257), (20, 420), (255, 300), (256, 300), (300, 70000), (3, 66000)]:
    for shuffle in (False, True):
        R.check("mapping codes between alphabets preserves the symbols", f"mapper {n_src}->{n_tgt}", {"source": n_src, "target": n_tgt, "reversed": shuffle},
                lambda n_src=n_src, n_tgt=n_tgt, shuffle=shuffle: mapper_sizes(n_src, n_tgt, shuffle))


def kmer_mapper():
    base = seq.NucleotideSequence.alphabet_unamb
    k5 = align.KmerAlphabet(base, 5)
    src = seq.Alphabet(["TTTTT", "GATTA", "AAAAA", "ACGTA"])
    tgt = seq.Alphabet([k5.decode(c) if isinstance(k5.decode(c), str) else "".join(k5.decode(c)) for c in range(len(k5))])
    m = seq.AlphabetMapper(src, tgt)
    out = np.asarray(m[np.arange(len(src))])
    got = [tgt.decode(int(c)) for c in out]
    return None if list(got) == list(src.get_symbols()) else f"mapped to {got}"


R.check("mapping codes between alphabets preserves the symbols", "mapper into a 1024-symbol alphabet", {"target": "all 5-mers"}, kmer_mapper)
R.finish()
