#!/venv/bin/python
"""BOUNDED stand-in for C19: UPGMA / neighbour joining / Newick.  Bound:
seeded random distance matrices of 2..7 taxa (200 quick / 1000 thorough),
additive matrices generated from random trees, every tree also sent through
Newick (with and without labels / distances / whitespace), copy and as_binary."""
import itertools
import sys
import numpy as np
sys.path.insert(0, "/verif")
from bounded.common import Run
import biotite.sequence.phylo as phylo

R = Run("C19", "seeded random distance matrices and additive (tree) matrices of 2..7 taxa: leaves once, ultrametric average-linkage heights, "
                "NJ recovers additive distances, Newick / copy / as_binary keep leaf-to-leaf distances")
rng = np.random.default_rng(R.args.seed + 19)
N = 1000 if R.thorough else 200


def rand_matrix(n):
    d = rng.integers(1, 40, size=(n, n)).astype(float)
    d = (d + d.T) / 2
    np.fill_diagonal(d, 0)
    return d


def leaf_dist(tree, n):
    return np.array([[tree.get_distance(i, j) if i != j else 0.0 for j in range(n)] for i in range(n)])


def leaves_once(tree, n):
    idx = sorted(l.index for l in tree.leaves)
    return None if idx == list(range(n)) else f"leaf indices {idx}"


def upgma_contract(n):
    d = rand_matrix(n)
    tree = phylo.upgma(d)
    f = leaves_once(tree, n)
    if f:
        return f
    # ultrametric: all leaves at the same depth
    depths = [l.distance_to(tree.root) for l in tree.leaves]
    if max(depths) - min(depths) > 1e-3:
        return f"not ultrametric: leaf depths {np.round(depths, 4).tolist()}"
    # reference average linkage
    clusters = {i: [i] for i in range(n)}
    heights = []
    ties = False
    while len(clusters) > 1:
        best = None
        vals = []
        for a, b in itertools.combinations(sorted(clusters), 2):
            v = np.mean([d[x, y] for x in clusters[a] for y in clusters[b]])
            vals.append(v)
            if best is None or v < best[0] - 1e-9:
                best = (v, a, b)
        if sum(1 for x in vals if abs(x - best[0]) < 1e-6) > 1:
            ties = True      # the merge order is not determined: any choice is a valid UPGMA tree
        v, a, b = best
        heights.append(v / 2)
        clusters[a] = clusters[a] + clusters.pop(b)
    ld = leaf_dist(tree, n)
    got_heights = sorted({round(ld[i, j] / 2, 3) for i in range(n) for j in range(i + 1, n)})
    exp_heights = sorted({round(h, 3) for h in heights})
    # every merge height of the reference must occur as half a leaf-to-leaf distance (ties may merge in another order)
    if not ties and got_heights != exp_heights:
        return f"merge heights {got_heights} != half average-linkage distances {exp_heights}"
    return None


def random_tree_matrix(n):
    """additive matrix from a random binary tree with positive branch lengths"""
    nodes = [[i] for i in range(n)]
    dist = np.zeros((n, n))
    active = list(range(n))
    members = {i: [i] for i in range(n)}
    nxt = n
    while len(active) > 1:
        a, b = rng.choice(active, size=2, replace=False)
        la, lb = rng.integers(1, 10, size=2)
        for x in members[a]:
            for y in range(n):
                if y not in members[a]:
                    dist[x, y] += la
                    dist[y, x] += la
        for x in members[b]:
            for y in range(n):
                if y not in members[b]:
                    dist[x, y] += lb
                    dist[y, x] += lb
        members[nxt] = members.pop(a) + members.pop(b)
        active = [k for k in active if k not in (a, b)] + [nxt]
        nxt += 1
    return dist


def nj_contract(n):
    d = random_tree_matrix(n)
    tree = phylo.neighbor_joining(d)
    f = leaves_once(tree, n)
    if f:
        return f
    ld = leaf_dist(tree, n)
    if not np.allclose(ld, d, atol=1e-2):
        return f"leaf-to-leaf path lengths differ from the additive matrix by up to {np.abs(ld - d).max():.4f}"
    return None


def newick_contract(n):
    d = rand_matrix(n)
    tree = phylo.upgma(d) if (rng.random() < 0.5 or n < 4) else phylo.neighbor_joining(d)
    ref = leaf_dist(tree, n)
    labels = [f"t{i}" for i in range(n)]
    for kw, back_kw in (({}, {}), ({"labels": labels}, {"labels": labels})):
        text = tree.to_newick(**kw)
        for variant in (text, text.replace(",", " , ").replace("(", "( ").replace(")", " )")):
            t2 = phylo.Tree.from_newick(variant, **back_kw)
            f = leaves_once(t2, n)
            if f:
                return "after Newick: " + f
            if not np.allclose(leaf_dist(t2, n), ref, atol=1e-3 * (1 + ref.max())):
                return f"leaf distances changed through Newick {variant[:60]!r}"
    t3 = phylo.Tree.from_newick(tree.to_newick(include_distance=False))
    if leaves_once(t3, n):
        return "topology-only Newick lost leaves"
    c = tree.copy()
    if not np.allclose(leaf_dist(c, n), ref) or c.root is tree.root:
        return "copy changes distances or shares nodes"
    b = phylo.as_binary(tree)
    if not np.allclose(leaf_dist(b, n), ref, atol=1e-5):
        return "as_binary changed leaf-to-leaf distances"
    for i, j in itertools.combinations(range(n), 2):
        li, lj = tree.leaves[i], tree.leaves[j]
        lca = li.lowest_common_ancestor(lj)
        if abs(li.distance_to(lca) + lj.distance_to(lca) - tree.get_distance(i, j)) > 1e-4:
            return "get_distance != path sum through the lowest common ancestor"
    return None


for it in range(N):
    n = int(rng.integers(2, 8))
    R.check("UPGMA: every index one leaf, ultrametric, heights = half average linkage", "upgma", {"n": n, "draw": it}, lambda n=n: upgma_contract(n))
    n2 = int(rng.integers(4, 8))
    R.check("NJ reproduces every leaf-to-leaf path length of an additive matrix", "nj additive", {"n": n2, "draw": it}, lambda n2=n2: nj_contract(n2))
    if it % 2 == 0:
        R.check("Newick / copy / as_binary keep topology and leaf distances; queries equal path sums", "newick", {"n": n, "draw": it},
                lambda n=n: newick_contract(n))
R.finish()
