#!/venv/bin/python
"""BOUNDED stand-in for C04: structures through the real CIF / BinaryCIF
write-read cycle (with and without compression), using a synthetic component
dictionary via info.set_ccd_path().  Bound: arrays of 4..6 atoms in 2..3
residues and stacks of 2..3 models built from small pools of annotation
values (mixed insertion codes, charges, hetero flags, altlocs, occupancies),
bond sets over the first atoms, optional box / atom_id / b_factor /
occupancy / charge; model and altloc selection."""
import io
import itertools
import os
import sys
import tempfile
import warnings
import numpy as np
sys.path.insert(0, "/verif")
from bounded.common import Run
import biotite.structure as struc
import biotite.structure.info as info
import biotite.structure.io.pdbx as pdbx
from fixtures.make_ccd import main as make_ccd

R = Run("C04", "small AtomArrays / AtomArrayStacks through set_structure -> serialise -> parse -> get_structure for CIF, BinaryCIF "
                "and compressed BinaryCIF; model and altloc selection vs per-row recomputation")
_tmp = tempfile.mkdtemp(prefix="verif-ccd-")
import atexit
import shutil
atexit.register(shutil.rmtree, _tmp, True)
ccd = os.path.join(_tmp, "components.bcif")
make_ccd(ccd)
info.set_ccd_path(ccd)

RES = [("GLY", ["N", "CA", "C"], ["N", "C", "C"]), ("ALA", ["N", "CA", "CB"], ["N", "C", "C"]), ("SER", ["N", "OG"], ["N", "O"])]


def build(nres, models, ins, charges, hetero, with_box, with_bonds, extra):
    names, elems, resn, resid, inscode = [], [], [], [], []
    for r in range(nres):
        rn, an, el = RES[r % len(RES)]
        for a, e in zip(an, el):
            names.append(a); elems.append(e); resn.append(rn); resid.append(r + 1); inscode.append(ins[r % len(ins)])
    n = len(names)
    a = struc.AtomArray(n) if models is None else struc.AtomArrayStack(models, n)
    a.chain_id[:] = "A"
    a.res_id[:] = resid
    a.ins_code[:] = inscode
    a.res_name[:] = resn
    a.hetero[:] = [hetero[i % len(hetero)] for i in range(n)]
    a.atom_name[:] = names
    a.element[:] = elems
    rng = np.random.default_rng(n * 7 + (models or 0))
    a.coord = rng.integers(-500, 500, size=a.coord.shape).astype(np.float32) / 8
    if "charge" in extra:
        a.set_annotation("charge", np.array([charges[i % len(charges)] for i in range(n)], dtype=int))
    if "b_factor" in extra:
        a.set_annotation("b_factor", (np.arange(n) * 1.25).astype(float))
    if "occupancy" in extra:
        a.set_annotation("occupancy", np.array([1.0, 0.5][: 1] * n, dtype=float))
    if "atom_id" in extra:
        a.set_annotation("atom_id", np.arange(10, 10 + n))
    if with_box:
        b = np.array([[10, 0, 0], [0, 12, 0], [0, 0, 15]], dtype=np.float32)
        a.box = b if models is None else np.stack([b for m in range(models)])    # the format holds one unit cell
    if with_bonds:
        bl = [(0, 1, struc.BondType.SINGLE), (1, 2, struc.BondType.DOUBLE)]
        if n > 4:
            bl.append((2, 3, struc.BondType.SINGLE))       # inter-residue
            bl.append((3, 4, struc.BondType.SINGLE))
        a.bonds = struc.BondList(n, np.array([(i, j, int(t)) for i, j, t in bl]))
    return a


def cycle(a, flavour, extra):
    if flavour == "cif":
        f = pdbx.CIFFile()
        pdbx.set_structure(f, a, include_bonds=a.bonds is not None)
        g = pdbx.CIFFile.deserialize(f.serialize())
    else:
        f = pdbx.BinaryCIFFile()
        pdbx.set_structure(f, a, include_bonds=a.bonds is not None)
        if flavour == "bcif-compressed":
            f = pdbx.compress(f)
        s = io.BytesIO()
        f.write(s)
        s.seek(0)
        g = pdbx.BinaryCIFFile.read(s)
    model = None if isinstance(a, struc.AtomArrayStack) else 1
    with warnings.catch_warnings():
        warnings.simplefilter("ignore")
        return pdbx.get_structure(g, model=model, extra_fields=list(extra), include_bonds=a.bonds is not None), g


def same(a, b, extra):
    if type(a) is not type(b):
        return f"type {type(b).__name__} != {type(a).__name__}"
    if a.array_length() != b.array_length():
        return f"{b.array_length()} atoms != {a.array_length()}"
    for cat in ["chain_id", "res_id", "ins_code", "res_name", "hetero", "atom_name", "element"] + list(extra):
        x, y = a.get_annotation(cat), b.get_annotation(cat)
        if cat in ("b_factor", "occupancy"):
            if not np.allclose(x, y, atol=1e-3):
                return f"{cat}: wrote {x.tolist()}, read {y.tolist()}"
        elif x.tolist() != y.tolist():
            return f"{cat}: wrote {x.tolist()}, read {y.tolist()}"
    if a.coord.shape != b.coord.shape or not np.allclose(a.coord, b.coord, atol=1e-3):
        return "coordinates differ"
    if (a.box is None) != (b.box is None):
        return "box presence differs"
    if a.box is not None and not np.allclose(a.box, b.box, atol=1e-2):
        return f"box differs: {b.box.tolist()}"
    if a.bonds is not None:
        if b.bonds is None:
            return "bonds lost"
        if a.bonds.as_set() != b.bonds.as_set():
            return f"bonds {sorted(b.bonds.as_set())} != {sorted(a.bonds.as_set())}"
    return None


INS = [[""], ["", "A"], ["A", ""], ["A", "B"]]
CHG = [[0], [0, 1], [-1, 0, 2], [1]]
HET = [[False], [False, True]]
configs = []
for nres, models in [(2, None), (3, None), (2, 2), (3, 3), (2, 1)]:
    for ins, chg in itertools.product(INS, CHG):
        configs.append((nres, models, ins, chg, HET[(len(ins) + len(chg)) % 2], True, True, ("charge", "b_factor", "occupancy", "atom_id")))
    configs.append((nres, models, [""], [0], [False], False, False, ()))
    configs.append((nres, models, ["", "B"], [0, 1], [False, True], False, True, ("charge",)))
    configs.append((nres, models, ["", "B"], [0, 1], [False, True], True, False, ("atom_id", "charge")))
if not R.thorough:
    configs = configs[::2] + configs[1:8]
for cfg in configs:
    nres, models, ins, chg, het, box, bonds, extra = cfg
    for flavour in ("cif", "bcif", "bcif-compressed"):
        def run(cfg=cfg, flavour=flavour):
            a = build(*cfg)
            b, g = cycle(a, flavour, cfg[-1])
            return same(a, b, cfg[-1])
        desc = {"residues": nres, "models": models, "ins_codes": ins, "charges": chg, "hetero": het, "box": box, "bonds": bonds,
                "extra": list(extra), "flavour": flavour}
        R.check("write-read cycle returns an equal structure", f"{flavour} {'stack' if models else 'array'}", desc, run)


def numbering_case(first, last, charge_lo, charge_hi, flavour):
    """one CA-only chain whose residue ids / atom ids / charges reach the edges of the 8/16-bit integer types
    (compression narrows integer columns to the smallest type that holds them)"""
    ids = np.arange(first, last + 1)
    n = len(ids)
    a = struc.AtomArray(n)
    a.chain_id[:] = "A"
    a.res_id[:] = ids
    a.res_name[:] = "GLY"
    a.atom_name[:] = "CA"
    a.element[:] = "C"
    a.coord = (np.arange(n * 3, dtype=np.float32).reshape(n, 3) * 0.5)
    a.set_annotation("charge", np.linspace(charge_lo, charge_hi, n).round().astype(int))
    a.set_annotation("atom_id", (np.arange(n) + last - n + 1 if first < 0 else np.arange(1, n + 1)).astype(int))
    b, g = cycle(a, flavour, ("charge", "atom_id"))
    return same(a, b, ("charge", "atom_id"))


for first, last in [(1, 127), (1, 128), (-2, 127), (-2, 128), (-2, 129), (-128, 5), (-129, 5), (-3, 255), (-3, 256), (250, 260),
                    (-2, 32767 // 64), (32700, 32770), (-5, 40), (65530, 65540)]:
    for clo, chi in [(0, 0), (-1, 2), (-128, 127)]:
        for flavour in ("cif", "bcif", "bcif-compressed"):
            if not R.thorough and (clo, chi) != (-1, 2) and flavour != "bcif-compressed":
                continue
            R.check("write-read cycle returns an equal structure", f"{flavour} numbering at integer type edges",
                    {"res_id": [first, last], "charge": [clo, chi], "flavour": flavour},
                    lambda first=first, last=last, clo=clo, chi=chi, flavour=flavour: numbering_case(first, last, clo, chi, flavour))


def nan_case(n, nan_at, flavour):
    """B-factors / occupancies that are not available (NaN, what biotite itself assigns when a file lacks the column)
    come back as NaN - also after compression - and the other values unchanged"""
    a = struc.AtomArray(n)
    a.chain_id[:] = "A"
    a.res_id[:] = np.arange(1, n + 1)
    a.res_name[:] = "GLY"
    a.atom_name[:] = "CA"
    a.element[:] = "C"
    a.coord = (np.arange(n * 3, dtype=np.float32).reshape(n, 3) * 0.25)
    b = np.round(np.linspace(5, 60, n), 2)
    o = np.ones(n)
    for k in nan_at:
        b[k % n] = np.nan
        o[(k + 1) % n] = np.nan
    a.set_annotation("b_factor", b)
    a.set_annotation("occupancy", o)
    back, g = cycle(a, flavour, ("b_factor", "occupancy"))
    for cat, ref in (("b_factor", b), ("occupancy", o)):
        got = back.get_annotation(cat)
        if not np.array_equal(np.isnan(got), np.isnan(ref)) or not np.allclose(got[~np.isnan(ref)], ref[~np.isnan(ref)], atol=1e-3):
            bad = [int(i) for i in np.where(~np.isclose(got, ref, atol=1e-3, equal_nan=True))[0][:4]]
            return f"{cat}: differs at atoms {bad}: wrote {ref[bad].tolist()}, read {got[bad].tolist()}"
    if not np.allclose(back.coord, a.coord, atol=1e-3):
        return "coordinates differ"
    return None


for n in (3, 40, 200):
    for nan_at in ((0,), (5, 17), tuple(range(0, 40, 3))):
        for flavour in ("cif", "bcif", "bcif-compressed"):
            R.check("write-read cycle returns an equal structure", f"{flavour} unavailable (NaN) B-factors / occupancies",
                    {"atoms": n, "nan_at": list(nan_at), "flavour": flavour}, lambda n=n, nan_at=nan_at, flavour=flavour: nan_case(n, nan_at, flavour))


def cap_case(cap, side, flavour):
    """a bond between a canonical residue and a non-canonical neighbour (terminal caps, ligands) is no implicit
    standard link: it is written to struct_conn and comes back"""
    if side == "after":
        rows = [("ALA", 7, "N", "N", False), ("ALA", 7, "CA", "C", False), ("ALA", 7, "C", "C", False), (cap, 9, "N" if cap == "NH2" else "C1", "N" if cap == "NH2" else "C", True)]
        bonds = [(0, 1, 1), (1, 2, 1), (2, 3, 1)]
    else:
        rows = [(cap, 3, "C" if cap == "ACE" else "C1", "C", True), ("ALA", 5, "N", "N", False), ("ALA", 5, "CA", "C", False), ("ALA", 5, "C", "C", False)]
        bonds = [(0, 1, 1), (1, 2, 1), (2, 3, 1)]
    n = len(rows)
    a = struc.AtomArray(n)
    a.chain_id[:] = "A"
    a.res_name[:] = [r[0] for r in rows]
    a.res_id[:] = [r[1] for r in rows]
    a.atom_name[:] = [r[2] for r in rows]
    a.element[:] = [r[3] for r in rows]
    a.hetero[:] = [r[4] for r in rows]
    a.coord = np.arange(n * 3, dtype=np.float32).reshape(n, 3)
    a.bonds = struc.BondList(n, np.array(bonds))
    b, g = cycle(a, flavour, ())
    return same(a, b, ())


for cap, side in (("NH2", "after"), ("LIG", "after"), ("ACE", "before"), ("LIG", "before")):
    for flavour in ("cif", "bcif", "bcif-compressed"):
        R.check("write-read cycle returns an equal structure", f"{flavour} bond to a non-canonical neighbour", {"cap": cap, "side": side, "flavour": flavour},
                lambda cap=cap, side=side, flavour=flavour: cap_case(cap, side, flavour))


def box_case(cell, models, flavour):
    """an equivalent box: the unit cell (three lengths, three angles - hexagonal, triclinic, a-/c-unique monoclinic
    cells included) of the structure read back equals the one written, for every model"""
    la, lb, lc, al, be, ga = cell
    ar, br, gr = np.deg2rad([al, be, ga])
    bx, by = lb * np.cos(gr), lb * np.sin(gr)
    cx = lc * np.cos(br)
    cy = lc * (np.cos(ar) - np.cos(br) * np.cos(gr)) / np.sin(gr)
    cz = np.sqrt(lc * lc - cx * cx - cy * cy)
    box = np.array([[la, 0, 0], [bx, by, 0], [cx, cy, cz]], dtype=np.float32)
    a = build(2, models, [""], [0], [False], False, False, ())
    a.box = box if models is None else np.stack([box] * models)
    b, g = cycle(a, flavour, ())
    if b.box is None:
        return "no box read back"
    for bb in ([b.box] if models is None else list(b.box)):
        u = struc.unitcell_from_vectors(bb)
        got = [float(u[0]), float(u[1]), float(u[2])] + [float(np.rad2deg(x)) for x in u[3:]]
        for gv, e, tol, name in zip(got, cell, (2e-3,) * 3 + (2e-2,) * 3, ("a", "b", "c", "alpha", "beta", "gamma")):
            if abs(gv - e) > tol + 2e-6 * abs(e):
                return f"unit cell {name} = {e} read back as {gv:.4f} (whole cell {[round(x, 3) for x in got]}, wrote {list(cell)})"
    return same(a, b, ()) if models is None or True else None


for cell in [(10, 12, 15, 90, 90, 90), (30, 30, 50, 90, 90, 120), (30.5, 40.25, 50.125, 80, 100, 110), (40, 41, 42, 91, 92, 93), (20, 25, 30, 100, 90, 90),
             (20, 25, 30, 90, 90, 105), (20, 25, 30, 90, 104.5, 90), (10, 10, 200, 90, 90, 90.1)]:
    for models in (None, 2):
        for flavour in ("cif", "bcif", "bcif-compressed"):
            R.check("write-read cycle returns an equal structure", f"{flavour} unit cell", {"cell": list(cell), "models": models, "flavour": flavour},
                    lambda cell=cell, models=models, flavour=flavour: box_case(cell, models, flavour))


def inscode_bond_case(which, flavour):
    """struct_conn bond partners are identified by chain, residue id, INSERTION CODE, residue name and atom name:
    a bond to residue 52A comes back on 52A although residue 52 has the same name and atoms"""
    rows = [("SER", 52, "", "N", "N", False), ("SER", 52, "", "OG", "O", False), ("SER", 52, "A", "N", "N", False), ("SER", 52, "A", "OG", "O", False),
            ("LIG", 301, "", "C1", "C", True)]
    n = len(rows)
    a = struc.AtomArray(n)
    a.chain_id[:] = "A"
    a.res_name[:] = [r[0] for r in rows]
    a.res_id[:] = [r[1] for r in rows]
    a.ins_code[:] = [r[2] for r in rows]
    a.atom_name[:] = [r[3] for r in rows]
    a.element[:] = [r[4] for r in rows]
    a.hetero[:] = [r[5] for r in rows]
    a.coord = np.arange(n * 3, dtype=np.float32).reshape(n, 3)
    partner = 3 if which == "52A" else 1
    a.bonds = struc.BondList(n, np.array([(partner, 4, 1)]))
    b, g = cycle(a, flavour, ())
    return same(a, b, ())


for which in ("52", "52A"):
    for flavour in ("cif", "bcif", "bcif-compressed"):
        R.check("write-read cycle returns an equal structure", f"{flavour} bond partner told apart by its insertion code", {"bonded residue": which, "flavour": flavour},
                lambda which=which, flavour=flavour: inscode_bond_case(which, flavour))


def snapshot_case(cfg, flavour):
    """set_structure() takes a snapshot: changing the caller's arrays in place afterwards must not change the file"""
    a = build(*cfg)
    orig = a.copy()
    f = pdbx.CIFFile() if flavour == "cif" else pdbx.BinaryCIFFile()
    pdbx.set_structure(f, a, include_bonds=a.bonds is not None)
    a.coord += 10.0
    a.res_id += 7
    a.chain_id[:] = "Z"
    if "b_factor" in a.get_annotation_categories():
        a.b_factor += 1.0
    if flavour == "cif":
        g = pdbx.CIFFile.deserialize(f.serialize())
    else:
        s = io.BytesIO()
        f.write(s)
        s.seek(0)
        g = pdbx.BinaryCIFFile.read(s)
    model = None if isinstance(a, struc.AtomArrayStack) else 1
    with warnings.catch_warnings():
        warnings.simplefilter("ignore")
        b = pdbx.get_structure(g, model=model, extra_fields=list(cfg[-1]), include_bonds=orig.bonds is not None)
    r = same(orig, b, cfg[-1])
    return None if r is None else "after in-place changes of the written array: " + r


_snap = {}
for cfg in configs:
    _snap.setdefault((cfg[1], cfg[5], cfg[6]), cfg)
for cfg in _snap.values():
    for flavour in ("cif", "bcif"):
        R.check("the file holds the structure as it was when written (text and binary form alike)", f"snapshot {flavour} {'stack' if cfg[1] else 'array'}",
                {"residues": cfg[0], "models": cfg[1], "flavour": flavour}, lambda cfg=cfg, flavour=flavour: snapshot_case(cfg, flavour))


def reread_case(cfg):
    """the text and the binary form decode to the same result when read one after the other with the
    caller's own list of extra fields; the caller's list is not changed"""
    a = build(*cfg)
    fields = list(cfg[-1])
    before = list(fields)
    model = None if isinstance(a, struc.AtomArrayStack) else 1
    results = []
    for flavour in ("cif", "bcif"):
        f = pdbx.CIFFile() if flavour == "cif" else pdbx.BinaryCIFFile()
        pdbx.set_structure(f, a, include_bonds=a.bonds is not None)
        if flavour == "cif":
            g = pdbx.CIFFile.deserialize(f.serialize())
        else:
            s = io.BytesIO()
            f.write(s)
            s.seek(0)
            g = pdbx.BinaryCIFFile.read(s)
        with warnings.catch_warnings():
            warnings.simplefilter("ignore")
            try:
                b = pdbx.get_structure(g, model=model, extra_fields=fields, include_bonds=a.bonds is not None)
            except Exception as e:
                return f"{flavour} read with the shared extra_fields list raised {type(e).__name__}: {e}"
        r = same(a, b, before)
        if r:
            return f"{flavour} (read with the list already used for the other form): {r}"
        if fields != before:
            return f"get_structure() changed the caller's extra_fields list to {fields}"
    return None


for cfg in _snap.values():
    if cfg[-1]:
        R.check("text and binary form decode to the same result", f"re-read with one extra_fields list {'stack' if cfg[1] else 'array'}",
                {"residues": cfg[0], "models": cfg[1], "extra": list(cfg[-1])}, lambda cfg=cfg: reread_case(cfg))


def large_case(flavour, n_res):
    """a structure large enough for the dictionary-based struct_conn matcher (rows(struct_conn) * rows(atom_site) > 4e6):
    hetero residues of 2 atoms each, every residue bonded to the next one, the first atom of the model included"""
    n = 2 * n_res
    a = struc.AtomArray(n)
    a.chain_id[:] = "A"
    a.res_id[:] = np.repeat(np.arange(1, n_res + 1), 2)
    a.ins_code[:] = ""
    a.res_name[:] = "LIG"
    a.hetero[:] = True
    a.atom_name[:] = np.tile(["C1", "O1"], n_res)
    a.element[:] = np.tile(["C", "O"], n_res)
    a.coord = np.arange(n * 3, dtype=np.float32).reshape(n, 3) / 10
    bonds = [(2 * r, 2 * r + 1, 1) for r in range(n_res)] + [(2 * r, 2 * r + 2, 1) for r in range(n_res - 1)]
    a.bonds = struc.BondList(n, np.array(bonds))
    f = pdbx.CIFFile() if flavour == "cif" else pdbx.BinaryCIFFile()
    pdbx.set_structure(f, a, include_bonds=True)
    if flavour == "cif":
        g = pdbx.CIFFile.deserialize(f.serialize())
    else:
        s = io.BytesIO()
        f.write(s)
        s.seek(0)
        g = pdbx.BinaryCIFFile.read(s)
    with warnings.catch_warnings():
        warnings.simplefilter("ignore")
        b = pdbx.get_structure(g, model=1, include_bonds=True)
    want, got = a.bonds.as_set(), b.bonds.as_set()
    if want != got:
        return f"{n} atoms / {len(bonds)} bonds ({flavour}): lost {sorted(want - got)[:4]}, invented {sorted(got - want)[:4]}"
    return same(a, b, ())


for flavour in ("cif", "bcif"):
    for n_res in ((60, 1600) if not R.thorough else (60, 1600, 2400)):
        R.check("write-read cycle returns an equal structure", f"large structure with inter-residue bonds {flavour}", {"residues": n_res, "flavour": flavour},
                lambda flavour=flavour, n_res=n_res: large_case(flavour, n_res))


# string annotations with special characters: text and binary flavour must agree with the input
SPECIAL = ["O5'", "5' cap", 'say "x"', "a b", "_lead", "#x", ";x", "data_1", "it's a", "N"]


def special_strings(flavour, values, field):
    a = build(2, None, [""], [0], [False], False, False, ())
    n = a.array_length()
    vals = [values[i % len(values)] for i in range(n)]
    if field == "atom_name":
        a.atom_name = np.array(vals)
    else:
        a.set_annotation("label", np.array(vals))
    extra = () if field == "atom_name" else ("label",)
    if field != "atom_name":
        # extra string fields are written as atom_site columns of the same name
        pass
    b, g = cycle(a, flavour, ())
    got = b.atom_name.tolist() if field == "atom_name" else None
    if field == "atom_name" and got != vals:
        return f"atom_name: wrote {vals}, read {got}"
    return None


for v in SPECIAL:
    for flavour in ("cif", "bcif"):
        R.check("string annotations with special characters survive the write-read cycle", f"special strings {flavour}",
                {"atom_name": [v, "CA"], "flavour": flavour}, lambda v=v, flavour=flavour: special_strings(flavour, [v, "CA"], "atom_name"))


# model selection and altloc policies vs per-row recomputation
ALT_OCC = {"typical": [1.0, 0.3, 0.7, 1.0, 0.6, 0.4], "tie": [1.0, 0.5, 0.5, 1.0, 0.5, 0.5], "all zero": [1.0, 0.0, 0.0, 1.0, 0.0, 0.0],
           "zero and positive": [0.0, 0.0, 0.2, 0.0, 0.0, 0.0]}


def altloc_structure(occ):
    n = 6
    a = struc.AtomArray(n)
    a.chain_id[:] = "A"
    a.res_id[:] = [1, 1, 1, 2, 2, 2]
    a.res_name[:] = ["GLY"] * 3 + ["ALA"] * 3
    a.atom_name[:] = ["N", "CA", "CA", "N", "CB", "CB"]
    a.element[:] = ["N", "C", "C", "N", "C", "C"]
    a.coord = np.arange(n * 3, dtype=np.float32).reshape(n, 3)
    a.set_annotation("altloc_id", np.array([".", "A", "B", ".", "B", "A"]))
    a.set_annotation("occupancy", np.array(ALT_OCC[occ]))
    return a


def altloc_case(policy, occ, flavour):
    a = altloc_structure(occ)
    f = pdbx.CIFFile() if flavour == "cif" else pdbx.BinaryCIFFile()
    pdbx.set_structure(f, a, include_bonds=False)
    # write the altloc ids into the atom_site table
    f.block["atom_site"]["label_alt_id"] = a.altloc_id
    if flavour == "cif":
        g = pdbx.CIFFile.deserialize(f.serialize())
    else:
        s = io.BytesIO()
        f.write(s)
        s.seek(0)
        g = pdbx.BinaryCIFFile.read(s)
    b = pdbx.get_structure(g, model=1, altloc=policy, extra_fields=["occupancy"])
    if policy == "all":
        exp = [list(range(6))]
    elif policy == "first":
        exp = [[0, 1, 3, 4]]
    else:
        # per residue the altloc with the highest summed occupancy; with equal sums either choice is a
        # highest one, but one location is chosen for every residue (no atom site is lost)
        occs = ALT_OCC[occ]
        r1 = [[1], [2]] if occs[1] == occs[2] else ([[1]] if occs[1] > occs[2] else [[2]])
        r2 = [[4], [5]] if occs[4] == occs[5] else ([[4]] if occs[4] > occs[5] else [[5]])
        exp = [[0] + x + [3] + y for x in r1 for y in r2]
    if b.coord.tolist() not in [a.coord[e].tolist() for e in exp]:
        return f"altloc={policy} ({occ} occupancies, {flavour}): rows {b.coord[:, 0].tolist()}, expected one of {[a.coord[e][:, 0].tolist() for e in exp]}"
    return None


for pol in ("first", "occupancy", "all"):
    for occ in ALT_OCC:
        for flavour in ("cif", "bcif"):
            R.check("altloc policy selects exactly the matching rows", f"altloc {pol}", {"altloc": pol, "occupancies": occ, "flavour": flavour},
                    lambda pol=pol, occ=occ, flavour=flavour: altloc_case(pol, occ, flavour))


def model_case(m, flavour):
    a = build(2, 3, ["", "A"], [0, 1], [False], True, False, ("charge",))
    F = pdbx.CIFFile if flavour == "cif" else pdbx.BinaryCIFFile
    f = F()
    pdbx.set_structure(f, a)
    b = pdbx.get_structure(f, model=m, extra_fields=["charge"])
    exp = a[m - 1 if m > 0 else m]
    return same(exp, b, ("charge",))


for m in (1, 2, 3, -1):
    for fl in ("cif", "bcif"):
        R.check("requested model selects exactly its rows", f"model {m} {fl}", {"model": m, "flavour": fl}, lambda m=m, fl=fl: model_case(m, fl))


def relabelled_model_case(labels, m, flavour):
    """files of other programs number their models freely (the representative conformer first: 3, 1, 2; gaps:
    1, 5, 9): a requested model is one model's rows - the m-th model of the file (the documented counting), or,
    read generously, the model carrying that number - never several models, none, or a mixture"""
    a = build(2, 3, ["", "A"], [0, 1], [False], True, False, ("charge",))
    n = a.array_length()
    F = pdbx.CIFFile if flavour == "cif" else pdbx.BinaryCIFFile
    f = F()
    pdbx.set_structure(f, a)
    cat = f.block["atom_site"]
    nums = np.repeat(np.array(labels), n)
    cat["pdbx_PDB_model_num"] = nums.astype(str) if flavour == "cif" else nums.astype(np.int32)
    try:
        with warnings.catch_warnings():
            warnings.simplefilter("ignore")
            b = pdbx.get_structure(f, model=m, extra_fields=["charge"])
    except Exception as e:
        return f"model numbers {labels}: get_structure(model={m}) raised {type(e).__name__}: {e}"
    by_order = same(a[m - 1 if m > 0 else m], b, ("charge",))
    by_label = same(a[labels.index(m)], b, ("charge",)) if m in labels else "no such label"
    if by_order and by_label:
        return f"model numbers {labels}: get_structure(model={m}) is neither the model at that place ({by_order}) nor the one with that number ({by_label})"
    return None


for labels in ([3, 1, 2], [2, 3, 1], [1, 5, 9], [7, 7 + 1, 7 + 2], [3, 2, 1]):
    for m in (1, 2, 3, -1, -3):
        for fl in ("cif", "bcif"):
            R.check("requested model selects exactly its rows", f"freely numbered models {fl}", {"model numbers": labels, "model": m, "flavour": fl},
                    lambda labels=labels, m=m, fl=fl: relabelled_model_case(labels, m, fl))
def tolerance_case(tol, level):
    """compression with a tolerance asked for: a compressed file decodes to the structure that was written, float
    columns within the *requested* relative tolerance (B-factors / occupancies / a float extra field with six
    decimals, enough rows for the fixed-point encodings to pay off)"""
    a = build(24, None, [""], [0], [False], True, False, ("b_factor", "occupancy"))
    n = a.array_length()
    rng = np.random.default_rng(4242)
    a.set_annotation("b_factor", np.round(rng.uniform(10, 100, size=n), 6))
    a.set_annotation("occupancy", np.round(rng.uniform(0.1, 1, size=n), 6))
    f = pdbx.BinaryCIFFile()
    pdbx.set_structure(f, a)
    if level == "file":
        g = pdbx.compress(f, float_tolerance=tol)
    else:
        g = pdbx.BinaryCIFFile({k: pdbx.compress(blk, float_tolerance=tol) for k, blk in f.items()})
    st = io.BytesIO()
    g.write(st)
    st.seek(0)
    b = pdbx.get_structure(pdbx.BinaryCIFFile.read(st), model=1, extra_fields=["b_factor", "occupancy"])
    err = same(a, b, ())
    if err:
        return err
    for cat in ("b_factor", "occupancy"):
        x, y = a.get_annotation(cat).astype(float), b.get_annotation(cat).astype(float)
        rel = np.abs(x - y) / np.abs(x)
        if rel.max() > tol * (1 + 1e-6) + 1e-15:
            k = int(rel.argmax())
            return f"{cat}: wrote {x[k]!r}, the compressed file gives {y[k]!r} (relative error {rel[k]:.3g}, float_tolerance={tol} was asked for)"
    return None


for tol in (1e-3, 1e-6, 1e-9, 1e-12):
    for level in ("file", "block"):
        R.check("text and binary form decode to the same result, also after compression", f"compress {level} with a requested tolerance",
                {"float_tolerance": tol, "level": level}, lambda tol=tol, level=level: tolerance_case(tol, level))

def string_field_case(values, flavour):
    """a per-atom string annotation written as an extra field comes back unchanged from every flavour, whatever
    characters it holds (both quote characters, a line break, a leading semicolon / underscore / hash ...)"""
    a = build(2, None, [""], [0], [False], False, False, ())
    n = a.array_length()
    note = [values[i % len(values)] for i in range(n)]
    a.set_annotation("note", np.array(note, dtype=object).astype(str))
    F = pdbx.CIFFile if flavour == "cif" else pdbx.BinaryCIFFile
    f = F()
    pdbx.set_structure(f, a, extra_fields=["note"])
    st = io.StringIO() if flavour == "cif" else io.BytesIO()
    if flavour == "bcif-compressed":
        f = pdbx.compress(f)
    f.write(st)
    st.seek(0)
    try:
        b = pdbx.get_structure(F.read(st), model=1, extra_fields=["note"])
    except Exception as e:
        return f"the written file cannot be read back: {type(e).__name__}: {e}"
    err = same(a, b, ())
    if err:
        return err
    if b.note.tolist() != note:
        return f"note: wrote {note}, read {b.note.tolist()}"
    return None


for values in (["plain"], ["5' end, \"capped\"", "x"], ["two\nlines", "y"], ["x", "two\nlines"], [";semi", "_under", "#hash"], ["a b", "'q'", '"d"'],
               ["5' end, \"capped\""], ["both ' and \"", "line\nbreak", "plain"]):
    for fl in ("cif", "bcif", "bcif-compressed"):
        R.check("write-read cycle returns an equal structure", f"string extra field {fl}", {"values": values, "flavour": fl},
                lambda values=values, fl=fl: string_field_case(values, fl))

R.finish()
