#!/venv/bin/python
"""BOUNDED stand-in for C16: superimposition.  Bound: seeded random point sets
of 3..8 points (generic, planar, collinear, mirror-ambiguous), exact rigid
copies and noisy copies, stacks of 2 models; optimality probed against
random rigid perturbations of the returned placement."""
import sys
import numpy as np
sys.path.insert(0, "/verif")
from bounded.common import Run
import biotite.structure as struc

R = Run("C16", "seeded random point sets (generic / planar / collinear / mirror-symmetric), exact and noisy rigid copies, stacks: "
                "proper rotation, RMSD optimality vs perturbations, apply == 4x4 matrix")
rng = np.random.default_rng(R.args.seed + 16)
N = 600 if R.thorough else 150


def rot(rng, scale=1.0):
    q = rng.normal(size=4) * np.array([1, scale, scale, scale]) + np.array([0 if scale == 1.0 else 3, 0, 0, 0])
    q /= np.linalg.norm(q)
    a, b, c, d = q
    return np.array([[a*a+b*b-c*c-d*d, 2*(b*c-a*d), 2*(b*d+a*c)],
                     [2*(b*c+a*d), a*a-b*b+c*c-d*d, 2*(c*d-a*b)],
                     [2*(b*d-a*c), 2*(c*d+a*b), a*a-b*b-c*c+d*d]])


def points(kind, n):
    p = rng.uniform(-10, 10, size=(n, 3))
    if kind == "planar":
        p[:, 2] = 0.0
    elif kind == "collinear":
        p = np.outer(rng.uniform(-10, 10, size=n), rng.normal(size=3))
    elif kind == "mirror":
        half = rng.uniform(-10, 10, size=(n // 2, 3))
        p = np.vstack([half, half * np.array([1, 1, -1])])
    return p


def rmsd(a, b):
    return float(np.sqrt(np.mean(np.sum((a - b) ** 2, axis=-1))))


def contract(kind, n, noise):
    fixed = points(kind, n)
    Rm, t = rot(rng), rng.uniform(-30, 30, size=3)
    mobile = (fixed - fixed.mean(0)) @ Rm.T + t + rng.normal(size=fixed.shape) * noise
    fitted, tr = struc.superimpose(fixed.astype(np.float32), mobile.astype(np.float32))
    rotm = np.asarray(tr.rotation, dtype=float).reshape(-1, 3, 3)[0]
    if not np.allclose(rotm @ rotm.T, np.eye(3), atol=1e-4):
        return "rotation is not orthonormal"
    if abs(np.linalg.det(rotm) - 1) > 1e-4:
        return f"rotation has determinant {np.linalg.det(rotm):.5f}"
    applied = tr.apply(mobile.astype(np.float32))
    if not np.allclose(applied, fitted, atol=1e-3):
        return "transformation.apply(mobile) != fitted coordinates"
    M = np.asarray(tr.as_matrix(), dtype=float).reshape(-1, 4, 4)[0]
    hom = np.hstack([mobile, np.ones((len(mobile), 1))]) @ M.T
    if not np.allclose(hom[:, :3], applied, atol=2e-3):
        return "apply() != 4x4 matrix form"
    # the matrix form is a pure view of the transformation: asking twice gives the same, editing the
    # returned array or the transformation afterwards is reflected correctly
    m_first = np.array(tr.as_matrix(), dtype=float)
    got = tr.as_matrix()
    got[..., :3, 3] *= 0.1
    if not np.allclose(np.asarray(tr.as_matrix(), dtype=float), m_first, atol=1e-6):
        return "as_matrix() changed after the returned array was edited"
    moved = struc.AffineTransformation(tr.center_translation.copy(), tr.rotation.copy(), tr.target_translation.copy())
    moved.as_matrix()
    moved.target_translation = moved.target_translation + 3.0
    M2 = np.asarray(moved.as_matrix(), dtype=float).reshape(-1, 4, 4)[0]
    hom2 = np.hstack([mobile, np.ones((len(mobile), 1))]) @ M2.T
    if not np.allclose(hom2[:, :3], moved.apply(mobile.astype(np.float32)), atol=2e-3):
        return "as_matrix() is stale after target_translation was changed: apply() != 4x4 matrix form"
    r0 = rmsd(fixed, np.asarray(fitted, dtype=float))
    if noise == 0 and r0 > 2e-3:
        return f"exact rigid copy ({kind}) fitted with RMSD {r0:.5f}"
    # no rigid placement nearby (or the oracle Kabsch fit) is better
    c = np.asarray(fitted, dtype=float)
    cen = c.mean(0)
    for _ in range(20):
        cand = (c - cen) @ rot(rng, 0.05).T + cen + rng.normal(size=3) * 0.05
        if rmsd(fixed, cand) < r0 - 1e-3:
            return f"a perturbed rigid placement has RMSD {rmsd(fixed, cand):.5f} < reported fit {r0:.5f}"
    # independent Kabsch in float64
    A, B = mobile - mobile.mean(0), fixed - fixed.mean(0)
    U, S, Vt = np.linalg.svd(A.T @ B)
    d = np.sign(np.linalg.det(U @ Vt))
    best = rmsd(B, A @ (U @ np.diag([1, 1, d]) @ Vt))
    if r0 > best + 2e-3:
        return f"reported fit RMSD {r0:.5f} > optimal {best:.5f}"
    return None


for it in range(N):
    for kind in ("generic", "planar", "collinear", "mirror", "two atoms", "one atom"):
        n = int(rng.integers(3, 9)) if kind != "mirror" else 2 * int(rng.integers(2, 5))
        if kind in ("two atoms", "one atom"):
            n = 2 if kind == "two atoms" else 1
        for noise in (0.0, 0.3):
            R.check("superimpose: proper rotation, optimal RMSD, apply == matrix", f"superimpose {kind} noise={noise}",
                    {"kind": kind, "n": n, "noise": noise, "draw": it}, lambda kind=kind, n=n, noise=noise: contract(kind, n, noise))


def constructed_transformation(rot_dtype, trans_dtype, stacked):
    """AffineTransformation objects built by hand (as in the class documentation: a 90 degree rotation written with
    0 / +-1 literals, fractional translations): apply() equals the textbook formula and the 4x4 matrix form"""
    rot = np.array([[0, -1, 0], [1, 0, 0], [0, 0, 1]], dtype=rot_dtype)
    c = np.array([1.25, -0.5, 2.75], dtype=trans_dtype)
    t = np.array([2.0, 0.75, 0.6], dtype=trans_dtype)
    if stacked:
        rot = np.stack([rot, np.eye(3, dtype=rot_dtype)])
        c, t = np.stack([c, c * 2]), np.stack([t, -t])
    tr = struc.AffineTransformation(c, rot, t)
    pts = rng.uniform(-5, 5, size=(4, 3)).astype(np.float32)
    if rot_dtype in (int, np.int8):
        # coordinates given as an integer array (as in the class documentation: np.arange(15).reshape(5, 3))
        pts = np.arange(12).reshape(4, 3) - 4
    got = np.asarray(tr.apply(np.stack([pts, pts]) if stacked else pts), dtype=float)
    rots = np.asarray(rot, dtype=float).reshape(-1, 3, 3)
    cs, ts = np.asarray(c, dtype=float).reshape(-1, 3), np.asarray(t, dtype=float).reshape(-1, 3)
    for m in range(len(rots)):
        exp = (pts.astype(float) + cs[m]) @ rots[m].T + ts[m]
        g = got if not stacked else got[m]
        if not np.allclose(g, exp, atol=1e-4):
            return f"apply() of model {m}: {g[0].round(4).tolist()}, rotation(x + center_translation) + target_translation = {exp[0].round(4).tolist()}"
        M = np.asarray(tr.as_matrix(), dtype=float).reshape(-1, 4, 4)[m]
        hom = np.hstack([pts.astype(float), np.ones((len(pts), 1))]) @ M.T
        if not np.allclose(hom[:, :3], exp, atol=1e-4) or not np.allclose(hom[:, 3], 1) or not np.allclose(M[3], [0, 0, 0, 1]):
            return (f"as_matrix() of model {m} maps {pts[0].round(3).tolist()} to {hom[0, :3].round(4).tolist()}, apply() gives {exp[0].round(4).tolist()} "
                    f"(translation column {M[:3, 3].round(4).tolist()})")
    return None


for rot_dtype in (int, np.int8, np.float32, np.float64):
    for trans_dtype in (np.float32, np.float64):
        for stacked in (False, True):
            R.check("superimpose: proper rotation, optimal RMSD, apply == matrix", "hand-made transformation: apply == 4x4 matrix",
                    {"rotation dtype": str(np.dtype(rot_dtype)), "translation dtype": str(np.dtype(trans_dtype)), "stacked": stacked},
                    lambda rot_dtype=rot_dtype, trans_dtype=trans_dtype, stacked=stacked: constructed_transformation(rot_dtype, trans_dtype, stacked))


def stack_contract():
    fixed = points("generic", 5)
    models = np.stack([(fixed - fixed.mean(0)) @ rot(rng).T + rng.uniform(-5, 5, size=3) for _ in range(2)])
    fitted, tr = struc.superimpose(fixed.astype(np.float32), models.astype(np.float32))
    for m in range(2):
        if rmsd(fixed, np.asarray(fitted[m], dtype=float)) > 2e-3:
            return f"model {m} of a stack of rigid copies fitted with RMSD {rmsd(fixed, np.asarray(fitted[m], dtype=float)):.5f}"
    ap = tr.apply(models.astype(np.float32))
    if not np.allclose(ap, fitted, atol=1e-3):
        return "apply() does not act model-wise on the stack"
    return None


for it in range(N // 5):
    R.check("superimpose acts model-wise on stacks", "superimpose stack", {"draw": it}, stack_contract)


def mixed_stack_contract(kinds, noise):
    """a stack whose models need the reflection correction or not, independently of each other (a mirrored
    copy has its best proper fit only after the correction): every model is fitted as if it were alone"""
    fixed = points("generic", 6)
    models = []
    for k in kinds:
        base = fixed - fixed.mean(0)
        if k == "mirrored":
            base = base * np.array([1, 1, -1])
        elif k == "planar":
            base = base * np.array([1, 1, 0])
        models.append(base @ rot(rng).T + rng.uniform(-5, 5, size=3) + rng.normal(size=fixed.shape) * noise)
    models = np.stack(models)
    fitted, tr = struc.superimpose(fixed.astype(np.float32), models.astype(np.float32))
    rots = np.asarray(tr.rotation, dtype=float).reshape(-1, 3, 3)
    if len(rots) != len(kinds):
        return f"{len(rots)} rotations for {len(kinds)} models"
    for m, k in enumerate(kinds):
        if not np.allclose(rots[m] @ rots[m].T, np.eye(3), atol=1e-4) or abs(np.linalg.det(rots[m]) - 1) > 1e-4:
            return f"model {m} ({k}): rotation has determinant {np.linalg.det(rots[m]):.4f}"
        alone, _ = struc.superimpose(fixed.astype(np.float32), models[m].astype(np.float32))
        r_stack, r_alone = rmsd(fixed, np.asarray(fitted[m], dtype=float)), rmsd(fixed, np.asarray(alone, dtype=float))
        A, B = models[m] - models[m].mean(0), fixed - fixed.mean(0)
        U, S, Vt = np.linalg.svd(A.T @ B)
        d = np.sign(np.linalg.det(U @ Vt))
        best = rmsd(B, A @ (U @ np.diag([1, 1, d]) @ Vt))
        if r_stack > best + 2e-3 or abs(r_stack - r_alone) > 2e-3:
            return f"model {m} ({k}) fitted within the stack has RMSD {r_stack:.4f}, alone {r_alone:.4f}, optimal {best:.4f}"
    if not np.allclose(tr.apply(models.astype(np.float32)), fitted, atol=1e-3):
        return "apply() does not act model-wise on the stack"
    # the 4x4 form: one matrix per model, each reproducing apply() for its model
    try:
        Ms = np.asarray(tr.as_matrix(), dtype=float)
    except Exception as e:
        return f"as_matrix() of a stack fitted onto one model raised {type(e).__name__}: {e}"
    if Ms.shape != (len(kinds), 4, 4):
        return f"as_matrix() has shape {Ms.shape} for {len(kinds)} models"
    for m in range(len(kinds)):
        hom = np.hstack([models[m], np.ones((len(models[m]), 1))]) @ Ms[m].T
        if not np.allclose(hom[:, :3], np.asarray(fitted[m], dtype=float), atol=2e-3):
            return f"as_matrix()[{m}] does not reproduce the fitted coordinates of model {m}"
    return None


KINDS = [("rigid", "mirrored"), ("mirrored", "rigid"), ("rigid", "rigid", "mirrored"), ("mirrored", "mirrored"), ("rigid", "planar", "mirrored"),
         ("mirrored", "rigid", "rigid", "mirrored")]
for it in range(max(2, N // 10)):
    for kinds in KINDS:
        for noise in (0.0, 0.3):
            R.check("superimpose acts model-wise on stacks", "superimpose stack with models of either handedness",
                    {"models": list(kinds), "noise": noise, "draw": it}, lambda kinds=kinds, noise=noise: mixed_stack_contract(kinds, noise))


def mask_contract():
    fixed = points("generic", 7)
    mask = np.array([True, True, True, True, False, False, True])
    mobile = (fixed - fixed.mean(0)) @ rot(rng).T + rng.uniform(-5, 5, size=3)
    mobile[~mask] += rng.normal(size=(2, 3)) * 5
    fitted, tr = struc.superimpose(fixed.astype(np.float32), mobile.astype(np.float32), atom_mask=mask)
    r = rmsd(fixed[mask], np.asarray(fitted, dtype=float)[mask])
    return None if r < 2e-3 else f"masked atoms are exact rigid copies but RMSD over the mask is {r:.5f}"


for it in range(N // 5):
    R.check("superimpose minimises RMSD over the masked atoms", "superimpose mask", {"draw": it}, mask_contract)


def outlier_contract(n, n_out, max_iterations, min_anchors):
    """superimpose_without_outliers: the returned transformation is the best fit of the returned anchors"""
    fixed = points("generic", n)
    mobile = (fixed - fixed.mean(0)) @ rot(rng).T + rng.uniform(-20, 20, size=3) + rng.normal(size=fixed.shape) * 0.3
    out_idx = rng.choice(n, size=n_out, replace=False)
    mobile[out_idx] += rng.normal(size=(n_out, 3)) * rng.choice([3.0, 8.0, 20.0], size=(n_out, 1))
    f32, m32 = fixed.astype(np.float32), mobile.astype(np.float32)
    fitted, tr, anchors = struc.superimpose_without_outliers(f32, m32, min_anchors=min_anchors, max_iterations=max_iterations)
    anchors = np.asarray(anchors)
    if anchors.ndim != 1 or len(set(anchors.tolist())) != len(anchors) or (len(anchors) and (anchors.min() < 0 or anchors.max() >= n)):
        return f"anchor indices {anchors.tolist()} are not distinct atom indices"
    if len(anchors) < min(min_anchors, n):
        return f"{len(anchors)} anchors returned, min_anchors={min_anchors}"
    if max_iterations == 1 and len(anchors) != n:
        return f"max_iterations=1 (no outlier removal) but only {len(anchors)} of {n} atoms are anchors"
    if not np.allclose(tr.apply(m32), fitted, atol=1e-3):
        return "transformation.apply(mobile) != fitted coordinates"
    r_reported = rmsd(fixed[anchors], np.asarray(fitted, dtype=float)[anchors])
    best, _ = struc.superimpose(f32[anchors], m32[anchors])
    r_best = rmsd(fixed[anchors], np.asarray(best, dtype=float))
    if r_reported > r_best + 1e-2:
        return (f"RMSD over the {len(anchors)} returned anchors is {r_reported:.4f}, "
                f"a plain superimposition of these anchors reaches {r_best:.4f}")
    return None


def outlier_stack_contract(combo, n, n_out):
    """superimpose_without_outliers on the stack / array combinations: one proper rotation per model, fitted on the
    common anchors, reproduced by apply(); the outliers (moved in every model) are not among the anchors"""
    fixed = points("generic", n)
    m = 3
    mob = np.stack([(fixed - fixed.mean(0)) @ rot(rng).T + rng.uniform(-20, 20, size=3) + rng.normal(size=fixed.shape) * 0.1 for _ in range(m)])
    out_idx = rng.choice(n, size=n_out, replace=False)
    mob[:, out_idx] += rng.normal(size=(m, n_out, 3)) * 25.0
    fix_in = fixed if combo == "array / stack" else np.stack([fixed + k * 0.0 for k in range(m)])
    mob_in = mob if combo != "stack / array" else mob[0]
    fitted, tr, anchors = struc.superimpose_without_outliers(fix_in.astype(np.float32), mob_in.astype(np.float32), min_anchors=3, max_iterations=10)
    anchors = np.asarray(anchors)
    fitted = np.asarray(fitted, dtype=float)
    if set(out_idx.tolist()) & set(anchors.tolist()) and n_out:
        return f"gross outliers {sorted(set(out_idx.tolist()) & set(anchors.tolist()))} are among the anchors"
    given = mob_in if combo != "stack / array" else np.stack([mob_in] * m)       # (one transformation per fixed model)
    if not np.allclose(np.asarray(tr.apply(given.astype(np.float32)), dtype=float), fitted, atol=1e-3):
        return "transformation.apply(mobile) != fitted coordinates"
    rots = np.asarray(tr.rotation, dtype=float).reshape(-1, 3, 3)
    for k, rm in enumerate(rots):
        if not np.allclose(rm @ rm.T, np.eye(3), atol=1e-4) or abs(np.linalg.det(rm) - 1) > 1e-4:
            return f"rotation of model {k} is not proper (determinant {np.linalg.det(rm):.4f})"
    models = fitted if fitted.ndim == 3 else fitted[None]
    if combo != "stack / array" and len(models) != m:
        return f"{len(models)} fitted models for {m} mobile models"
    for k, fm in enumerate(models):
        src = mob[k] if combo != "stack / array" else mob[0]
        best, _ = struc.superimpose(fixed[anchors].astype(np.float32), src[anchors].astype(np.float32))
        r_rep, r_best = rmsd(fixed[anchors], fm[anchors]), rmsd(fixed[anchors], np.asarray(best, dtype=float))
        if r_rep > r_best + 2e-2:
            return f"model {k}: RMSD over the anchors {r_rep:.4f}, a plain superimposition of these anchors reaches {r_best:.4f}"
    return None


for it in range(max(2, N // 25)):
    # (a stack as fixed with a single model as mobile is refused by the library with an IndexError - several
    #  transformations for one model -: not part of the contract)
    for combo in ("array / stack", "stack / stack"):
        for n_out in (0, 2):
            R.check("outlier-tolerant superimposition never reports a fit worse than its own anchors imply", f"without_outliers {combo}",
                    {"combination (fixed / mobile)": combo, "outliers": n_out, "draw": it},
                    lambda combo=combo, n_out=n_out: outlier_stack_contract(combo, 14, n_out))


for it in range(N // 3):
    n = int(rng.choice([12, 20, 40]))
    cfg = (n, int(rng.choice([0, 1, 3, n // 4])), int(rng.choice([1, 2, 3, 10])), int(rng.choice([3, n // 2, n - 2])))
    R.check("outlier-tolerant superimposition never reports a fit worse than its own anchors imply", f"without_outliers max_iterations={cfg[2]}",
            {"n": cfg[0], "outliers": cfg[1], "max_iterations": cfg[2], "min_anchors": cfg[3], "draw": it},
            lambda cfg=cfg: outlier_contract(*cfg))
def homologs_contract(chain_lengths, deleted, which):
    """superimpose_homologs() on a multi-chain structure and a rigid copy of it in which a few residues of the first
    chain are missing (in the fixed or in the mobile structure): the anchors pair the same residues, the result is a
    proper rigid motion, and the copy is fitted back onto the original"""
    import atexit
    import os
    import shutil
    import tempfile
    import biotite.structure.info as info
    from fixtures.make_ccd import main as make_ccd
    if not getattr(homologs_contract, "ccd", None):
        d = tempfile.mkdtemp(prefix="verif-ccd-")
        atexit.register(shutil.rmtree, d, True)
        homologs_contract.ccd = os.path.join(d, "components.bcif")
        make_ccd(homologs_contract.ccd)
        info.set_ccd_path(homologs_contract.ccd)
    r = np.random.default_rng(sum(chain_lengths) * 31 + len(deleted))
    n = sum(chain_lengths)
    full = struc.AtomArray(n)
    steps = r.normal(size=(n, 3))
    steps *= 3.8 / np.linalg.norm(steps, axis=-1)[:, None]
    full.coord = np.cumsum(steps, axis=0).astype(np.float32)
    full.atom_name[:] = "CA"
    full.element[:] = "C"
    full.hetero[:] = False
    full.res_name = r.choice(["GLY", "ALA", "SER"], size=n)
    full.chain_id = np.array([c for c, ln in zip("ABCDE", chain_lengths) for _ in range(ln)])
    full.res_id = np.array([k + 1 for ln in chain_lengths for k in range(ln)])
    keep = np.ones(n, dtype=bool)
    keep[list(deleted)] = False
    Rm, t = rot(r), r.uniform(-20, 20, size=3)
    moved = full.copy()
    moved.coord = (full.coord.astype(float) @ Rm.T + t).astype(np.float32)
    fixed, mobile = (full[keep], moved) if which == "fixed" else (full, moved[keep])
    try:
        fitted, transform, fa, ma = struc.superimpose_homologs(fixed, mobile)
    except Exception as e:
        return f"superimpose_homologs raised {type(e).__name__}: {e}"
    same_res = (fixed.chain_id[fa] == mobile.chain_id[ma]) & (fixed.res_id[fa] == mobile.res_id[ma])
    if len(fa) != len(ma) or len(fa) < 0.6 * keep.sum() or same_res.mean() < 0.8:
        return (f"{len(fa)} anchor pairs, {int(same_res.sum())} of them pair a residue with its own copy "
                f"(chains of {chain_lengths} residues, residues {list(deleted)} missing in the {which} structure)")
    rmsd = float(np.sqrt(np.mean(np.sum((fitted.coord[ma].astype(float) - fixed.coord[fa].astype(float)) ** 2, axis=-1))))
    if rmsd > 0.5:
        return f"a rigid copy is fitted with an anchor RMSD of {rmsd:.2f} (residues {list(deleted)} missing in the {which} structure)"
    Mx = np.asarray(transform.as_matrix(), dtype=float).reshape(-1, 4, 4)[0][:3, :3]
    if abs(np.linalg.det(Mx) - 1) > 1e-3 or not np.allclose(Mx @ Mx.T, np.eye(3), atol=1e-3):
        return "the transformation is not a proper rotation"
    return None


for chain_lengths, deleted in (((30, 25), (4, 5, 6)), ((30, 25), (10,)), ((20, 20, 20), (2, 3)), ((30, 25), ())):
    for which in ("fixed", "mobile"):
        R.check("superimpose: proper rotation, optimal RMSD, apply == matrix", "superimpose_homologs with chains of different length",
                {"chains": list(chain_lengths), "missing residues": list(deleted), "missing in": which},
                lambda chain_lengths=chain_lengths, deleted=deleted, which=which: homologs_contract(chain_lengths, deleted, which))

R.finish()
