#!/venv/bin/python
"""BOUNDED stand-in for C07: PDB write/read round trip through the real PDBFile.
Bound: arrays of 1..3 atoms and stacks of 2 models whose fields are drawn from
boundary values of every fixed-width column (coordinates, B-factor,
occupancy, charge, ids incl. 0 / negative / wrap-around / hybrid-36 range,
name lengths), plus NaN and out-of-range values that must be refused, and
CONECT round trips of all bond sets on 3 atoms."""
import io
import itertools
import sys
import warnings
import numpy as np
sys.path.insert(0, "/verif")
from bounded.common import Run
import biotite.structure as struc
import biotite.structure.io.pdb as pdb

R = Run("C07", "PDBFile.set_structure/get_structure on small arrays/stacks over boundary values of every fixed column; "
                "hybrid-36 ids; refused inputs; CONECT on 3 atoms")


def make(n=2, models=None, **over):
    a = struc.AtomArray(n) if models is None else struc.AtomArrayStack(models, n)
    a.chain_id[:] = "A"
    a.res_id[:] = np.arange(1, n + 1)
    a.ins_code[:] = ""
    a.res_name[:] = "GLY"
    a.hetero[:] = False
    a.atom_name[:] = ["N", "CA", "C"][:n] if n <= 3 else "C"
    a.element[:] = ["N", "C", "C"][:n] if n <= 3 else "C"
    a.coord = np.zeros(a.coord.shape, dtype=np.float32)
    for k, v in over.items():
        if k == "coord":
            a.coord[...] = np.array(v, dtype=np.float32)
        elif k in ("atom_id", "b_factor", "occupancy", "charge"):
            a.set_annotation(k, np.array(v))
        else:
            a.set_annotation(k, np.array(v))
    return a


def record_layout(f, a=None):
    """every ATOM/HETATM record has the standard fixed columns: 80 characters, blank separator columns,
    numeric fields parsable in their own columns, element right-justified in 77-78"""
    k = 0
    for line in f.lines:
        if line.startswith(("ATOM", "HETATM")):
            if len(line) != 80:
                return f"record of length {len(line)}: {line!r}"
            for lo, hi in ((11, 12), (20, 21), (27, 30), (66, 76)):
                if line[lo:hi].strip() != "":
                    return f"columns {lo + 1}-{hi} must be blank: {line!r}"
            for lo, hi, name in ((30, 38, "x"), (38, 46, "y"), (46, 54, "z"), (54, 60, "occupancy"), (60, 66, "B-factor")):
                try:
                    float(line[lo:hi])
                except ValueError:
                    return f"{name} columns {lo + 1}-{hi} hold {line[lo:hi]!r}: {line!r}"
                if line[lo:hi][0] not in " -" and name in ("y", "z", "B-factor") and not line[lo - 1].isspace() and False:
                    return "adjacent numeric fields touch"
            if a is not None:
                n = a.array_length()
                el = a.element[k % n]
                # atom name, columns 13-16: the element symbol is right-justified in 13-14, so names of one-letter
                # elements shorter than 4 characters start in column 14, names of two-letter elements in column 13
                nm = str(a.atom_name[k % n])
                want = (" " + nm if len(str(el)) == 1 and len(nm) < 4 else nm).ljust(4)
                if len(nm) <= 4 and str(el) and line[12:16] != want:
                    return f"atom name columns 13-16 hold {line[12:16]!r} for the name {nm!r} of element {str(el)!r}, expected {want!r}: {line!r}"
                if line[76:78].strip().upper() != str(el).upper():      # (the column; the value is the round trip's business)
                    return f"element columns 77-78 hold {line[76:78]!r}, expected {el!r}: {line!r}"
            k += 1
    return None


def roundtrip(a, hybrid36=False, extra=(), expect_refused=False, must_accept=False):
    f = pdb.PDBFile()
    try:
        with warnings.catch_warnings():
            warnings.simplefilter("ignore")
            f.set_structure(a, hybrid36=hybrid36)
    except (struc.BadStructureError, ValueError) as e:
        if must_accept:
            return f"a structure that fits every column was refused: {type(e).__name__}: {e}"
        return None        # refused with an error: allowed for input that exceeds a column
    lay = record_layout(f, a)
    if lay:
        return lay
    if expect_refused:
        return "input exceeding a column was written instead of being refused: " + "|".join(l for l in f.lines if l.startswith(("ATOM", "HETATM")))[:200]
    text = "\n".join(f.lines) + "\n"
    import io
    g = pdb.PDBFile.read(io.StringIO(text))
    with warnings.catch_warnings():
        warnings.simplefilter("ignore")
        b = g.get_structure(model=None if isinstance(a, struc.AtomArrayStack) else 1, extra_fields=list(extra))
    if b.array_length() != a.array_length():
        return f"{b.array_length()} atoms read, {a.array_length()} written"
    for cat in ["chain_id", "res_id", "ins_code", "res_name", "hetero", "atom_name", "element"] + list(extra):
        x, y = a.get_annotation(cat), b.get_annotation(cat)
        if cat in ("b_factor", "occupancy"):
            if not np.allclose(x, y, atol=0.0051):
                return f"{cat}: wrote {x.tolist()}, read {y.tolist()}"
        elif x.tolist() != y.tolist():
            return f"{cat}: wrote {x.tolist()}, read {y.tolist()}"
    if a.coord.shape != b.coord.shape:
        return f"coord shape {b.coord.shape} != {a.coord.shape}"
    if not np.allclose(a.coord, b.coord, atol=0.00051):
        return f"coord: wrote {a.coord.tolist()}, read {b.coord.tolist()}"
    return None


COORDS = [0.0, 1.0005, -1.0005, 9999.999, -999.999, 9999.9994, -999.9994, 9999.9996, -999.9996, 12345.6, -1000.0, 99999.0]
for v in COORDS:
    for axis in range(3):
        c = [[0.0, 0.0, 0.0], [1.0, 2.0, 3.0]]
        c[1][axis] = v
        lim = (-999.9995 < v < 9999.9995)
        R.check("coordinate column: round trip within 0.001 or refused, never shifted", f"coord {'in' if lim else 'out of'} range axis {axis}",
                {"coord": c}, lambda c=c, lim=lim: roundtrip(make(coord=c), must_accept=lim))
for v in [0.0, 1.0, 99.99, 999.99, 999.994, 999.996, -99.99, -99.996, 1000.0, float("nan")]:
    R.check("B-factor column", f"b_factor {v}", {"b_factor": [1.0, v]}, lambda v=v: roundtrip(make(b_factor=[1.0, v]), extra=["b_factor"], must_accept=(v == v and -99.99 <= v <= 999.99)))
    R.check("occupancy column", f"occupancy {v}", {"occupancy": [1.0, v]}, lambda v=v: roundtrip(make(occupancy=[1.0, v]), extra=["occupancy"], must_accept=(v == v and -99.99 <= v <= 999.99)))
for v in [0, 1, -1, 9, -9, 10, -10]:
    R.check("charge column", f"charge {v}", {"charge": [0, v]}, lambda v=v: roundtrip(make(charge=[0, v]), extra=["charge"], must_accept=abs(v) <= 9))
for ids in [[1, 2], [0, 1], [-1, 0], [99998, 99999], [99999, 100000], [5, 3]]:
    R.check("atom id column", f"atom_id {ids} decimal", {"atom_id": ids},
            lambda ids=ids: (lambda r: r if (r is None or max(ids) > 99999) else r)(
                None if max(ids) > 99999 else roundtrip(make(atom_id=ids), extra=["atom_id"], must_accept=True)))
for ids in [[1, 2], [99999, 100000], [100000, 100001], [1223055, 1223056], [43770015, 43770016], [87440031, 87440032]]:
    R.check("atom id column hybrid-36", f"atom_id {ids} hybrid36", {"atom_id": ids, "hybrid36": True},
            lambda ids=ids: roundtrip(make(atom_id=ids), hybrid36=True, extra=["atom_id"], must_accept=max(ids) <= 87440031))
for rid in [[1, 2], [-1, 0], [-999, 9999], [9999, 10000], [10000, 10001]]:
    R.check("residue id column", f"res_id {rid} decimal (wraps above 9999)", {"res_id": rid},
            lambda rid=rid: None if max(rid) > 9999 else roundtrip(make(res_id=rid), must_accept=True))
    R.check("residue id column hybrid-36", f"res_id {rid} hybrid36", {"res_id": rid, "hybrid36": True},
            lambda rid=rid: roundtrip(make(res_id=rid), hybrid36=True, must_accept=min(rid) >= 0 and max(rid) <= 2436111))
for names in [["N", "CA"], ["HD11", "C"], ["CA", "HD11"], ["ABCDE", "C"]]:
    R.check("atom name column", f"atom_name {names}", {"atom_name": names}, lambda names=names: roundtrip(make(atom_name=names), must_accept=max(map(len, names)) <= 4))
for rn in [["GLY", "A"], ["ABCD", "GLY"], ["ABCDEF", "GLY"]]:
    R.check("residue name column", f"res_name {rn}", {"res_name": rn}, lambda rn=rn: roundtrip(make(res_name=rn), must_accept=max(map(len, rn)) <= 3))
for ch in [["A", "B"], ["AB", "A"], ["ABCDE", "A"]]:
    R.check("chain id column", f"chain_id {ch}", {"chain_id": ch}, lambda ch=ch: roundtrip(make(chain_id=ch), must_accept=max(map(len, ch)) <= 1))
for ic in [["", "A"], ["A", "B"], ["AB", ""]]:
    R.check("insertion code column", f"ins_code {ic}", {"ins_code": ic}, lambda ic=ic: roundtrip(make(ins_code=ic), must_accept=max(map(len, ic)) <= 1))
for els in [["N", "C"], ["Zn", "Cl"], ["FE", "Fe"], ["Na", "H"], ["se", "C"]]:
    # the element symbol is written as given into columns 77-78 and comes back as given (Zn, Cl, Fe are two-letter
    # symbols whose second letter is lower case)
    R.check("element column", f"element {els}", {"element": els}, lambda els=els: roundtrip(make(element=els), must_accept=True))
for het in [[False, True], [True, True]]:
    R.check("record name", f"hetero {het}", {"hetero": het}, lambda het=het: roundtrip(make(hetero=het), must_accept=True))
# stacks: every model comes back
st = make(n=2, models=2, coord=[[[0, 0, 0], [1, 1, 1]], [[2, 2, 2], [3.5, -3.5, 0.125]]])
R.check("every model round-trips", "stack of 2 models", {"models": 2}, lambda: roundtrip(st, must_accept=True))
for m in (1, 2, -1):
    def one_model(m=m):
        f = pdb.PDBFile()
        f.set_structure(st)
        b = f.get_structure(model=m)
        exp = st.coord[m - 1 if m > 0 else m]
        return None if np.allclose(b.coord, exp, atol=0.00051) else f"model {m}: {b.coord.tolist()} != {exp.tolist()}"
    R.check("requested model", f"model {m}", {"model": m}, one_model)


# CONECT: all bond sets on 3 atoms
def box_contract(cell, models):
    """the box comes back to CRYST1 precision (lengths 0.001, angles 0.01 degree): the box is built here from the
    cell by the textbook formula in float64 (not by the library), written, read, and compared as a unit cell"""
    la, lb, lc, al, be, ga = cell
    ar, br, gr = np.deg2rad([al, be, ga])
    bx, by = lb * np.cos(gr), lb * np.sin(gr)
    cx = lc * np.cos(br)
    cy = lc * (np.cos(ar) - np.cos(br) * np.cos(gr)) / np.sin(gr)
    cz = np.sqrt(lc * lc - cx * cx - cy * cy)
    box = np.array([[la, 0, 0], [bx, by, 0], [cx, cy, cz]], dtype=np.float32)
    a = make(2, models=models)
    a.box = box if models is None else np.stack([box] * models)
    f = pdb.PDBFile()
    f.set_structure(a)
    s = io.StringIO()
    f.write(s)
    cryst = [l for l in s.getvalue().split("\n") if l.startswith("CRYST1")]
    if len(cryst) != 1:
        return f"{len(cryst)} CRYST1 records"
    line = cryst[0]
    try:
        written = [float(line[6:15]), float(line[15:24]), float(line[24:33]), float(line[33:40]), float(line[40:47]), float(line[47:54])]
    except ValueError:
        return f"CRYST1 fields not in their columns: {line!r}"
    for w, e, tol, name in zip(written, cell, (6e-4,) * 3 + (6e-3,) * 3, ("a", "b", "c", "alpha", "beta", "gamma")):
        if abs(w - e) > tol + 1e-6 * abs(e):
            return f"CRYST1 {name} written as {w}, the box has {e}: {line!r}"
    g = pdb.PDBFile.read(io.StringIO(s.getvalue()))
    b = g.get_structure(model=1 if models is None else None)
    if b.box is None:
        return "no box read back"
    boxes = [b.box] if models is None else list(b.box)
    if len(boxes) != (models or 1):
        return f"{len(boxes)} boxes for {models} models"
    for bb in boxes:
        u = struc.unitcell_from_vectors(bb)
        got = [float(u[0]), float(u[1]), float(u[2])] + [float(np.rad2deg(x)) for x in u[3:]]
        for gv, e, tol, name in zip(got, cell, (1.1e-3,) * 3 + (1.1e-2,) * 3, ("a", "b", "c", "alpha", "beta", "gamma")):
            if abs(gv - e) > tol + 2e-6 * abs(e):
                return f"{name} = {e} (CRYST1 {line[6:54]!r}) read back as {gv:.4f}"
    return None


CELLS = [(50, 60, 70, 90, 90, 90), (50, 60, 70, 90, 90.12, 90), (50, 50, 50, 90, 90.01, 90), (50, 50, 50, 89.99, 90, 90.02), (10, 10, 200, 90, 90, 90.1),
         (10, 10, 200, 90, 90, 90.05), (200, 10, 10, 90.03, 90, 90), (5, 300, 8, 90, 89.9, 90), (30, 30, 50, 90, 90, 120), (30.5, 40.25, 50.125, 80, 100, 110),
         (999.999, 999.999, 999.999, 90, 90, 90), (1.5, 2.5, 3.5, 60, 70, 80), (78.9, 78.9, 37.8, 90, 90, 90.5), (40, 41, 42, 91, 92, 93)]
for cell in CELLS:
    for models in (None, 2):
        R.check("box comes back to CRYST1 precision", "box", {"cell": list(cell), "models": models}, lambda cell=cell, models=models: box_contract(cell, models))


def conect(bonds):
    a = make(n=3, coord=[[0, 0, 0], [1.5, 0, 0], [3, 0, 0]])
    a.bonds = struc.BondList(3, np.array(bonds, dtype=int).reshape(-1, 3) if bonds else None)
    f = pdb.PDBFile()
    f.set_structure(a)
    b = f.get_structure(model=1, include_bonds=False)
    got = f.get_structure(model=1, include_bonds=False)
    lines = [l for l in f.lines if l.startswith("CONECT")]
    pairs = set()
    for l in lines:
        c = int(l[6:11])
        for k in range(11, 31, 5):
            s = l[k:k + 5].strip()
            if s:
                pairs.add((min(c, int(s)) - 1, max(c, int(s)) - 1))
    exp = {(min(x, y), max(x, y)) for x, y, t in bonds}
    return None if pairs == exp else f"CONECT records carry {sorted(pairs)}, bonds are {sorted(exp)}"


def conect_serials(atom_ids, hybrid36):
    """CONECT records name atoms by the serial strings of their ATOM/HETATM records (wrapped or hybrid-36 encoded
    like them), in 5-character columns"""
    a = make(n=3, coord=[[0, 0, 0], [1.5, 0, 0], [3, 0, 0]], hetero=[True, True, True], res_name=["LIG", "LIG", "LIG"],
             atom_name=["C1", "C2", "O1"], atom_id=atom_ids)
    a.bonds = struc.BondList(3, np.array([(0, 1, 1), (1, 2, 2)]))
    f = pdb.PDBFile()
    try:
        f.set_structure(a, hybrid36=hybrid36)
    except Exception as e:
        return None if not hybrid36 and max(atom_ids) > 99999 and False else f"set_structure raised {type(e).__name__}: {e}"
    serial = [l[6:11] for l in f.lines if l.startswith(("ATOM", "HETATM"))]
    if len(set(serial)) != 3:
        return None          # wrapped serials collide: CONECT records cannot be unambiguous (format limit)
    exp = {(serial[0], serial[1]), (serial[1], serial[0]), (serial[1], serial[2]), (serial[2], serial[1])}
    got = set()
    for l in f.lines:
        if l.startswith("CONECT"):
            if len(l.rstrip()) > 31 or (len(l.rstrip()) - 6) % 5:
                return f"CONECT record with shifted columns: {l.rstrip()!r} (ATOM serials {serial})"
            c = l[6:11]
            for k in range(11, len(l.rstrip()), 5):
                got.add((c, l[k:k + 5]))
    if got != exp:
        return f"CONECT records {sorted(got)} do not name the ATOM serials {serial} of the bonded atoms"
    return None


for ids in ([1, 2, 3], [99998, 99999, 100000], [100000, 100001, 100002], [99999, 1223055, 43770015], [5, 3, 9]):
    for hybrid36 in (False, True):
        R.check("CONECT records carry exactly the bonds", f"CONECT serials hybrid36={hybrid36}", {"atom_id": ids, "hybrid36": hybrid36},
                lambda ids=ids, hybrid36=hybrid36: conect_serials(ids, hybrid36))


def conect_layout(chains, res_ids, ins, hetero, bonds):
    """every bond between different residues, or touching a non-water hetero atom, has its CONECT record
    (bonds inside one standard residue are left to the component dictionary)"""
    a = make(n=3, coord=[[0, 0, 0], [1.5, 0, 0], [3, 0, 0]], chain_id=chains, res_id=res_ids, ins_code=ins, hetero=hetero,
             res_name=["CYS", "CYS", "CYS"], atom_name=["SG", "SG", "CB"])
    a.bonds = struc.BondList(3, np.array(bonds, dtype=int).reshape(-1, 3))
    f = pdb.PDBFile()
    f.set_structure(a)
    pairs = set()
    for l in f.lines:
        if l.startswith("CONECT"):
            c = int(l[6:11])
            for k in range(11, 31, 5):
                t = l[k:k + 5].strip()
                if t:
                    pairs.add((min(c, int(t)) - 1, max(c, int(t)) - 1))
    res = lambda i: (chains[i], res_ids[i], ins[i])
    must = {(min(x, y), max(x, y)) for x, y, t in bonds if res(x) != res(y) or hetero[x] or hetero[y]}
    may = {(min(x, y), max(x, y)) for x, y, t in bonds}
    if not must <= pairs:
        return f"bonds {sorted(must - pairs)} between different residues / hetero atoms have no CONECT record (records: {sorted(pairs)})"
    if not pairs <= may:
        return f"CONECT records {sorted(pairs - may)} for bonds that do not exist"
    return None


LAYOUTS = [(["A", "B", "B"], [42, 42, 43], ["", "", ""], [False, False, False]),
           (["A", "A", "A"], [5, 5, 6], ["", "A", ""], [False, False, False]),
           (["A", "A", "A"], [5, 5, 5], ["", "", ""], [True, True, False]),
           (["A", "B", "C"], [1, 1, 1], ["", "", ""], [False, False, False]),
           (["A", "A", "B"], [7, 7, 7], ["A", "B", "A"], [False, True, False])]
allb = [(0, 1, 1), (1, 2, 1), (0, 2, 2)]
for chains, rids, ins, het in LAYOUTS:
    for r in range(1, 4):
        for sub in itertools.combinations(allb, r):
            R.check("CONECT records carry exactly the bonds", "bonds across chains / insertion codes / hetero atoms",
                    {"chain_id": chains, "res_id": rids, "ins_code": ins, "hetero": het, "bonds": list(sub)},
                    lambda chains=chains, rids=rids, ins=ins, het=het, sub=sub: conect_layout(chains, rids, ins, het, list(sub)))
for r in range(0, 4):
    for sub in itertools.combinations(allb, r):
        R.check("CONECT records carry exactly the bonds", f"bonds {len(sub)}", {"bonds": list(sub)}, lambda sub=sub: conect(list(sub)))
R.finish()
